//go:build !verifyield

package conc

// Built against the repository itself (no scheduling points): world Y is not
// available in this binary.
func available() bool { return false }

// Available reports whether this binary was built over the generated copy.
func Available() bool { return false }

func install(h func(fid int), b func()) {}

func installU(u func()) {}

func funcNames() []string { return nil }
