// Package conc is world Y: several complete simulated hands (world E runs,
// with their clients, transport, faults and oracles) executed by concurrent
// goroutines in one process, over a copy of the engine in which every
// statement is preceded by a scheduling point. Exactly one goroutine runs at
// a time; which one, and where inside an engine call the others are parked,
// is decided by the run's PRNG (or by the recorded switch list on replay).
package conc

import (
	"fmt"
	"runtime"
	"sync"
	"sync/atomic"
	"time"

	"verif/harness/sim"
)

const (
	wParked int32 = iota
	wRunning
	wBlocked // observed blocked on a mutex held by a parked goroutine
	wFinished
)

// Switch is one scheduling decision: worker W, at its At-th scheduling
// point (kind "y"), when it finished (kind "f") or when it was found blocked
// on a lock (kind "l"), handed the processor to worker To.
type Switch struct {
	Kind string
	W    int
	At   int64
	To   int
	Fn   int // function id of the scheduling point (informational)
}

type worker struct {
	id     int
	goid   int64
	state  int32
	resume chan struct{}
	local  int64
	at     int // function of the scheduling point it is parked at (-1: not started)
}

type policy struct {
	quantum int64   // mean number of scheduling points between voluntary switches (0: none)
	focus   int     // function id whose scheduling points switch (-1: none)
	focusP  float64 // probability of switching at a scheduling point of the focus function
	maxSw   int     // cap on voluntary switches
	unlockW int     // > 0: switch (p = 1/2) at the first `unlockW` scheduling points a hand passes after it released a lock (a result computed under a lock and used after it)
	first   int     // > 0: switch (p = 1/2) at the first `first` scheduling points executed in each function (cold-start groups: whatever is initialised on first use is initialised while several hands are in flight)
}

type sched struct {
	mu          sync.Mutex
	ws          []*worker
	byGo        map[int64]*worker
	cur         *worker
	rng         *sim.RNG
	pol         policy
	ySw         map[[2]int64]int // replay: worker, its scheduling point -> next worker
	fSw         map[int]int      // replay: finished worker -> next worker
	lSw         map[int][]int    // replay: worker found blocked on a lock -> next workers, in order
	startW      int
	replay      bool
	rec         []Switch
	vol         int
	count       int64 // countdown to the next voluntary switch
	total       int64 // scheduling points passed (atomic: read by the watchdog)
	nBlocked    int32
	done        chan struct{}
	deadlock    bool
	fault       string
	lockSw      int
	foreign     int
	touch       map[int]int
	hot         int             // scheduling points of the token holder that still count as "right after an unlock"
	pairs       map[uint64]bool // (function switched away from, function the resumed hand is parked in)
	streak      int             // consecutive failed lock attempts with no statement executed in between
	deadlockWhy string
}

func (s *sched) geometric() int64 {
	if s.pol.quantum <= 0 {
		return 1 << 60
	}
	return 1 + int64(s.rng.Intn(int(2*s.pol.quantum)))
}

// hook is installed as the engine's scheduling point.
func (s *sched) hook(fid int) {
	if atomic.LoadInt32(&s.nBlocked) > 0 {
		// a goroutine that was blocked on a lock may have been woken: it
		// parks here instead of running beside the token holder
		id := sim.GoID()
		s.mu.Lock()
		me := s.byGo[id]
		cur := s.cur
		if me != nil && me != cur && me.state == wBlocked {
			me.state = wParked
			atomic.AddInt32(&s.nBlocked, -1)
			s.mu.Unlock()
			<-me.resume
		} else {
			s.mu.Unlock()
			if me == nil {
				return
			}
		}
	}
	w := s.cur
	if w == nil {
		return
	}
	w.local++
	s.streak = 0
	atomic.AddInt64(&s.total, 1)
	if s.replay {
		if to, ok := s.ySw[[2]int64{int64(w.id), w.local}]; ok {
			s.switchTo(w, to, "y", fid)
		}
		return
	}
	if s.vol >= s.pol.maxSw {
		return
	}
	if s.pol.unlockW > 0 {
		if s.hot > 0 {
			s.hot--
			if s.rng.Chance(0.5) {
				s.switchTo(w, -1, "y", fid)
			}
		}
		return
	}
	if s.pol.first > 0 {
		if s.touch == nil {
			s.touch = map[int]int{}
		}
		c := s.touch[fid]
		s.touch[fid] = c + 1
		if c < s.pol.first && s.rng.Chance(0.5) {
			s.switchTo(w, -1, "y", fid)
		}
		return
	}
	if s.pol.focus >= 0 {
		if fid == s.pol.focus && s.rng.Chance(s.pol.focusP) {
			s.switchTo(w, -1, "y", fid)
		}
		return
	}
	s.count--
	if s.count <= 0 {
		s.count = s.geometric()
		s.switchTo(w, -1, "y", fid)
	}
}

// settle waits until every goroutine marked blocked is either observably
// blocked on a mutex or has parked (it was woken by an unlock). Which of the
// two happens is a function of program state.
func (s *sched) settle() {
	if atomic.LoadInt32(&s.nBlocked) == 0 {
		return
	}
	deadline := time.Now().Add(5 * time.Second)
	for {
		ids := map[int64]bool{}
		s.mu.Lock()
		for _, w := range s.ws {
			if w.state == wBlocked {
				ids[w.goid] = true
			}
		}
		s.mu.Unlock()
		if len(ids) == 0 {
			return
		}
		bl := sim.BlockedOnLock(ids)
		if len(bl) == len(ids) {
			// confirm nothing moved meanwhile
			same := true
			s.mu.Lock()
			for _, w := range s.ws {
				if ids[w.goid] && w.state != wBlocked {
					same = false
				}
			}
			s.mu.Unlock()
			if same {
				return
			}
		}
		if time.Now().After(deadline) {
			s.fault = "watchdog: a goroutine woken from a lock neither parked nor blocked again within 5s"
			return
		}
		time.Sleep(20 * time.Microsecond)
	}
}

func (s *sched) parkedExcept(me *worker) []*worker {
	var out []*worker
	for _, w := range s.ws {
		if w != me && w.state == wParked {
			out = append(out, w)
		}
	}
	return out
}

// pick chooses the next worker: the recorded one on replay (when it is
// parked), otherwise by PRNG; nil when nobody is parked.
func (s *sched) pick(me *worker, want int) *worker {
	c := s.parkedExcept(me)
	if len(c) == 0 {
		return nil
	}
	if want == -2 {
		for j := 1; j <= len(s.ws); j++ {
			o := s.ws[(me.id+j)%len(s.ws)]
			if o != me && o.state == wParked {
				return o
			}
		}
		return c[0]
	}
	if s.replay {
		for _, w := range c {
			if w.id == want {
				return w
			}
		}
		return c[0]
	}
	return c[s.rng.Intn(len(c))]
}

func (s *sched) switchTo(me *worker, want int, kind string, fid int) {
	if sim.GoID() != me.goid {
		// a goroutine started by the engine itself, not one of the hands:
		// it is never parked
		s.foreign++
		return
	}
	s.settle()
	s.mu.Lock()
	t := s.pick(me, want)
	if t == nil {
		s.mu.Unlock()
		return
	}
	if kind == "y" {
		s.vol++
	}
	me.at = fid
	s.hot = 0
	if s.pairs == nil {
		s.pairs = map[uint64]bool{}
	}
	s.pairs[sim.Mix(uint64(fid+2), uint64(t.at+2))] = true
	s.rec = append(s.rec, Switch{Kind: kind, W: me.id, At: me.local, To: t.id, Fn: fid})
	s.cur = t
	t.state = wRunning
	me.state = wParked
	s.mu.Unlock()
	t.resume <- struct{}{}
	<-me.resume
}

func (s *sched) finish(me *worker) {
	s.settle()
	s.mu.Lock()
	me.state = wFinished
	want := -1
	if to, ok := s.fSw[me.id]; ok && s.replay {
		want = to
	}
	t := s.pick(me, want)
	if t == nil {
		left := 0
		for _, w := range s.ws {
			if w.state != wFinished {
				left++
			}
		}
		if left > 0 {
			s.deadlock = true
		}
		s.cur = nil
		s.mu.Unlock()
		close(s.done)
		return
	}
	s.rec = append(s.rec, Switch{Kind: "f", W: me.id, At: me.local, To: t.id})
	s.cur = t
	t.state = wRunning
	s.mu.Unlock()
	t.resume <- struct{}{}
}

// run executes the functions as concurrent workers under the scheduler and
// returns when all have finished (or none can move).
func (s *sched) run(fns []func()) {
	s.done = make(chan struct{})
	s.byGo = map[int64]*worker{}
	ready := make(chan struct{}, len(fns))
	for i, fn := range fns {
		w := &worker{id: i, resume: make(chan struct{}), state: wParked, at: -1}
		s.ws = append(s.ws, w)
		fn := fn
		go func() {
			w.goid = sim.GoID()
			s.mu.Lock()
			s.byGo[w.goid] = w
			s.mu.Unlock()
			ready <- struct{}{}
			<-w.resume
			fn()
			s.finish(w)
		}()
	}
	for range fns {
		<-ready
	}
	if !s.replay {
		s.count = s.geometric()
	}
	first := s.ws[0]
	if s.replay {
		if k := s.startW; k >= 0 && k < len(s.ws) {
			first = s.ws[k]
		}
	} else {
		first = s.ws[s.rng.Intn(len(s.ws))]
	}
	s.rec = append(s.rec, Switch{Kind: "s", W: -1, To: first.id})
	s.mu.Lock()
	s.cur = first
	first.state = wRunning
	s.mu.Unlock()
	first.resume <- struct{}{}

	// watchdog: the token holder blocked on a mutex (held by a parked
	// goroutine) hands the token on
	last := int64(-1)
	tick := time.NewTicker(300 * time.Microsecond)
	defer tick.Stop()
	start := time.Now()
	for {
		select {
		case <-s.done:
			return
		case <-tick.C:
		}
		tot := atomic.LoadInt64(&s.total)
		if tot != last {
			last = tot
			continue
		}
		s.mu.Lock()
		cur := s.cur
		s.mu.Unlock()
		if cur == nil {
			continue
		}
		if time.Since(start) > 10*time.Minute {
			s.fault = "watchdog: concurrent group did not finish within 10 minutes"
			return
		}
		bl := sim.BlockedOnLock(map[int64]bool{cur.goid: true})
		if !bl[cur.goid] || atomic.LoadInt64(&s.total) != tot {
			continue
		}
		// confirm (the first reading could have caught a transient wait on
		// one of the scheduler's own locks)
		time.Sleep(200 * time.Microsecond)
		bl = sim.BlockedOnLock(map[int64]bool{cur.goid: true})
		if !bl[cur.goid] || atomic.LoadInt64(&s.total) != tot {
			continue
		}
		// still the same token holder?
		s.mu.Lock()
		if s.cur != cur {
			s.mu.Unlock()
			continue
		}
		cur.state = wBlocked
		atomic.AddInt32(&s.nBlocked, 1)
		want := -1
		if q := s.lSw[cur.id]; s.replay && len(q) > 0 {
			want = q[0]
			s.lSw[cur.id] = q[1:]
		}
		t := s.pick(cur, want)
		if t == nil {
			s.deadlock = true
			s.cur = nil
			s.mu.Unlock()
			return
		}
		s.rec = append(s.rec, Switch{Kind: "l", W: cur.id, At: cur.local, To: t.id})
		s.lockSw++
		s.cur = t
		t.state = wRunning
		s.mu.Unlock()
		t.resume <- struct{}{}
	}
}

func (s *sched) loadScript(sw []Switch) {
	s.replay = true
	s.ySw = map[[2]int64]int{}
	s.fSw = map[int]int{}
	s.lSw = map[int][]int{}
	s.startW = 0
	for _, x := range sw {
		switch x.Kind {
		case "y":
			s.ySw[[2]int64{int64(x.W), x.At}] = x.To
		case "f":
			s.fSw[x.W] = x.To
		case "l":
			s.lSw[x.W] = append(s.lSw[x.W], x.To)
		case "s":
			s.startW = x.To
		}
	}
}

// blocked is installed as the engine's "could not take the lock" point: the
// hand must give way. When every unfinished hand is at such a point and none
// executed a statement in between, they wait for each other for ever.
func (s *sched) blocked() {
	w := s.cur
	if w == nil || sim.GoID() != w.goid {
		runtime.Gosched()
		return
	}
	s.streak++
	s.lockSw++
	atomic.AddInt64(&s.total, 1)
	others := 0
	s.mu.Lock()
	for _, o := range s.ws {
		if o != w && o.state == wParked {
			others++
		}
	}
	s.mu.Unlock()
	if others == 0 || s.streak > 3*len(s.ws)+3 {
		s.mu.Lock()
		s.deadlock = true
		s.deadlockWhy = fmt.Sprintf("hand %d cannot take a lock and no other hand can move (%d consecutive failed attempts)", w.id, s.streak)
		s.cur = nil
		s.mu.Unlock()
		close(s.done)
		select {} // this goroutine is abandoned together with the process
	}
	// give way in cyclic order (not by PRNG): after one round every other
	// hand has had a turn, so the deadlock test above cannot fire while some
	// hand is able to move
	s.switchTo(w, -2, "l", -1)
}

// unlocked is installed as the generated copy's "a lock has just been
// released" point.
func (s *sched) unlocked() {
	if s.pol.unlockW > 0 && s.cur != nil {
		s.hot = s.pol.unlockW
	}
}
