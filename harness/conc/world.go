package conc

import (
	"encoding/json"
	"fmt"
	"sort"

	"verif/harness/engine"
	"verif/harness/sim"
)

// Cfg of one concurrent group: the member hands are world-E runs, each a
// pure function of its sub-seed.
type Cfg struct {
	Members []uint64 `json:"members"`
	Policy  string   `json:"policy"` // informational
	// Cold: the group was the first thing its process did and the hands ran
	// concurrently BEFORE they ran alone, so that whatever the code under
	// test initialises lazily per process is initialised while several
	// hands are in flight. (A replay file is always executed first thing in
	// a fresh process.)
	Cold bool `json:"cold,omitempty"`
	// Tier the member hands were generated with (their oracles make engine
	// calls, which count as scheduling points)
	Tier string `json:"tier,omitempty"`
	// History: the groups this process had played before this one, in order
	// (recorded with a violation only). A change that keeps state in package
	// level variables makes a group depend on what its process did before;
	// the replay first plays these groups again, in a fresh process.
	History []uint64 `json:"history,omitempty"`
}

// what this process has generated so far (sub-seeds of the groups, in order)
var history []uint64

// a replay has already run in this process (its history prefix is then not
// played again: the process is no longer fresh anyway)
var replayed bool

// World implements sim.World for world Y. Cold selects the cold-start groups
// (one group per process, see Cfg.Cold).
type World struct{ Cold bool }

func (World) Name() string { return "Y" }

func (World) Components() map[string]string {
	c := engine.World{}.Components()
	c["goroutine scheduling between concurrent hands"] = "simulated: every statement of pokerface, pot, settlement, combination and table/native_backend.go is a scheduling point in a generated copy of the repository's working tree; one goroutine runs at a time, chosen by the PRNG"
	return c
}

// poisoned: a group deadlocked in this process; its goroutines still hold
// whatever they held, so no further group is run here.
var poisoned bool

// Poisoned reports whether a group deadlocked in this process.
func Poisoned() bool { return poisoned }

func member() engine.World { return engine.World{} }

func sameLog(a, b *sim.Result) string {
	if a.Case == nil || b.Case == nil {
		return ""
	}
	if len(a.Case.Steps) != len(b.Case.Steps) {
		return fmt.Sprintf("%d delivered steps alone, %d when run beside other hands", len(a.Case.Steps), len(b.Case.Steps))
	}
	for i := range a.Case.Steps {
		if a.Case.Steps[i].String() != b.Case.Steps[i].String() {
			return fmt.Sprintf("step %d is %s alone and %s beside other hands", i, a.Case.Steps[i], b.Case.Steps[i])
		}
	}
	if len(a.Log) != len(b.Log) {
		return fmt.Sprintf("%d recorded states alone, %d beside other hands", len(a.Log), len(b.Log))
	}
	for i := range a.Log {
		if a.Log[i] != b.Log[i] {
			st := ""
			if i < len(a.Case.Steps) {
				st = a.Case.Steps[i].String()
			}
			return fmt.Sprintf("the state after delivery %d (%s) differs from the state the same hand reaches when it runs alone", i, st)
		}
	}
	return ""
}

func (w World) exec(cfg *Cfg, rng *sim.RNG, script []Switch, o sim.Options) *sim.Result {
	res := &sim.Result{}
	if !available() {
		res.Fault = "world Y needs the binary built over the generated copy (build tag verifyield)"
		return res
	}
	if poisoned {
		res.Count("probe.conc.skipped-after-deadlock", 1)
		return res
	}
	mo := o
	mo.KeepLog = true
	if cfg.Tier != "" {
		mo.Tier = cfg.Tier
	}
	k := len(cfg.Members)
	// 1. every hand alone (also: which functions run, how many scheduling
	// points). Cold groups do this after the concurrent execution.
	seen := map[int]int64{}
	var points int64
	solo := make([]*sim.Result, k)
	runSolo := func() string {
		install(func(fid int) { seen[fid]++; points++ }, nil)
		defer install(nil, nil)
		for i, ss := range cfg.Members {
			solo[i] = member().Generate(ss, mo)
			if solo[i].Fault != "" {
				return "member hand alone: " + solo[i].Fault
			}
		}
		return ""
	}
	if !cfg.Cold {
		if f := runSolo(); f != "" {
			res.Fault = f
			return res
		}
	}
	// 2. the same hands concurrently
	s := &sched{}
	if script != nil {
		s.loadScript(script)
	} else {
		s.rng = rng
		if cfg.Cold {
			// nothing is known about the hands yet: dense switching from
			// the first statement on
			if rng.Chance(0.6) {
				s.pol = policy{focus: -1, maxSw: 4000, first: []int{10, 40, 150}[rng.Intn(3)]}
			} else {
				s.pol = policy{focus: -1, maxSw: 2000, quantum: []int64{5, 20, 80, 300, 1000, 5000}[rng.Intn(6)]}
			}
		} else {
			s.pol = drawPolicy(rng, seen, points)
		}
		cfg.Policy = fmt.Sprintf("quantum=%d focus=%s p=%.3f first-touch=%d after-unlock=%d cap=%d", s.pol.quantum, funcName(s.pol.focus), s.pol.focusP, s.pol.first, s.pol.unlockW, s.pol.maxSw)
	}
	conc := make([]*sim.Result, k)
	panics := make([]string, k)
	fns := make([]func(), k)
	for i := range cfg.Members {
		i := i
		fns[i] = func() {
			defer func() {
				if x := recover(); x != nil {
					conc[i] = &sim.Result{Fault: "engine-call-panicked"}
					panics[i] = fmt.Sprint(x)
				}
			}()
			conc[i] = member().Generate(cfg.Members[i], mo)
		}
	}
	install(s.hook, s.blocked)
	installU(s.unlocked)
	s.run(fns)
	install(nil, nil)
	installU(nil)
	if cfg.Cold && !s.deadlock && s.fault == "" {
		res.Count("probe.conc.cold-start-groups", 1)
		if f := runSolo(); f != "" {
			res.Fault = f
			return res
		}
	}
	for h := range s.pairs {
		res.States = append(res.States, h) // coverage measure of world Y: distinct function pairs interleaved
	}
	res.Count("probe.conc.groups", 1)
	res.Count("probe.conc.hands", int64(k))
	res.Count("fault.goroutine-switch-inside-engine-call", int64(s.vol))
	res.Count("fault.switch-because-blocked-on-lock", int64(s.lockSw))
	res.Count("probe.conc.scheduling-points", s.total)
	if s.foreign > 0 {
		res.Count("probe.conc.scheduling-point-on-a-goroutine-of-the-engine", int64(s.foreign))
	}
	if s.pol.unlockW > 0 {
		res.Count("probe.conc.policy-after-unlock", 1)
	} else if s.pol.focus >= 0 {
		res.Count("probe.conc.policy-focus-function", 1)
	} else if script == nil {
		res.Count("probe.conc.policy-quantum", 1)
	}
	if s.fault != "" {
		res.Fault = s.fault
		poisoned = true
		return res
	}
	steps := make([]sim.Step, 0, len(s.rec))
	for _, x := range s.rec {
		steps = append(steps, sim.Step{Actor: fmt.Sprintf("g%d", x.W), Op: "switch", Args: []int64{x.At, int64(x.To)}, Mode: x.Kind, Fault: funcName(x.Fn)})
	}
	cj, _ := json.Marshal(cfg)
	res.Case = &sim.Case{World: "Y", Property: o.Property, Config: cj, Steps: steps}
	res.Steps = len(steps)
	res.Nontrivial = s.vol > 0
	on := func(p string) bool { return o.Property == "" || o.Property == p }
	if s.deadlock {
		poisoned = true
		res.Case.Note = "the hands wait for each other: " + s.deadlockWhy
		res.Count("probe.conc.deadlock", 1)
		for _, p := range []string{"C06", "C07"} {
			if on(p) {
				res.Violate(p, "concurrent-hands: hands-block-each-other", "hands played by different goroutines of one process wait for each other for ever (each finishes when it runs alone)", len(steps))
			}
		}
		return res
	}
	// 3. compare
	for i := 0; i < k; i++ {
		c, a := conc[i], solo[i]
		if c == nil {
			res.Fault = "member did not return"
			return res
		}
		res.Steps += c.Steps
		for kk, v := range c.Counters {
			res.Count(kk, v)
		}
		res.Trans = append(res.Trans, c.Trans...)
		if panics[i] != "" {
			// an engine call made by an oracle of the property under check
			// (deliveries themselves are panic-protected by world E)
			if o.Property != "" {
				res.Violate(o.Property, "concurrent-hands: engine-call-panicked", fmt.Sprintf("hand %d (sub-seed %d), only beside other hands: %s", i, cfg.Members[i], panics[i]), len(steps))
			}
			continue
		}
		if c.Fault != "" {
			if on("C07") {
				res.Violate("C07", "concurrent-hands: hand-fails-only-beside-other-hands", fmt.Sprintf("hand %d (sub-seed %d): %s", i, cfg.Members[i], c.Fault), len(steps))
			}
			continue
		}
		have := map[string]bool{}
		for _, v := range a.Violations {
			have[v.Property+"|"+v.Sig] = true
		}
		for _, v := range c.Violations {
			if !have[v.Property+"|"+v.Sig] {
				res.Violate(v.Property, "concurrent-hands: "+v.Sig, fmt.Sprintf("only when other hands run in the same process at the same time (hand %d, sub-seed %d): %s", i, cfg.Members[i], v.Detail), len(steps))
			}
		}
		if d := sameLog(a, c); d != "" && on("C07") {
			res.Violate("C07", "concurrent-hands: hand-behaved-differently-than-alone", fmt.Sprintf("hand %d (sub-seed %d): %s", i, cfg.Members[i], d), len(steps))
		}
	}
	return res
}

func funcName(fid int) string {
	n := funcNames()
	if fid < 0 || fid >= len(n) {
		return ""
	}
	return n[fid]
}

func drawPolicy(r *sim.RNG, seen map[int]int64, points int64) policy {
	p := policy{focus: -1, maxSw: 400}
	if r.Chance(0.2) {
		// right after a lock has been released (does nothing in code without locks)
		p.unlockW = []int{2, 5, 12, 30}[r.Intn(4)]
		return p
	}
	if len(seen) > 0 && r.Chance(0.5) {
		ids := make([]int, 0, len(seen))
		for id := range seen {
			ids = append(ids, id)
		}
		sort.Ints(ids)
		p.focus = ids[r.Intn(len(ids))]
		p.focusP = []float64{1, 0.5, 0.25, 1.0 / 16, 1.0 / 64}[r.Intn(5)]
		return p
	}
	div := []int64{2, 4, 16, 64, 256, 2048}[r.Intn(6)]
	p.quantum = points / div
	if p.quantum < 1 {
		p.quantum = 1
	}
	return p
}

func (w World) Generate(subseed uint64, o sim.Options) *sim.Result {
	rng := sim.NewRNG(subseed)
	k := 2
	if rng.Chance(0.3) {
		k = 3
	}
	cfg := &Cfg{Cold: w.Cold, Tier: o.Tier}
	for i := 0; i < k; i++ {
		cfg.Members = append(cfg.Members, rng.Uint64())
	}
	res := w.exec(cfg, rng, nil, o)
	if res.Case != nil {
		res.Case.SubSeed = subseed
		if len(res.Violations) > 0 && len(history) > 0 {
			cfg.History = append([]uint64(nil), history...)
			res.Case.Config, _ = json.Marshal(cfg)
		}
	}
	history = append(history, subseed)
	return res
}

func (w World) Replay(c *sim.Case, o sim.Options) *sim.Result {
	var cfg Cfg
	if err := json.Unmarshal(c.Config, &cfg); err != nil || len(cfg.Members) == 0 {
		return &sim.Result{Fault: "bad world-Y config"}
	}
	var script []Switch
	for _, st := range c.Steps {
		if st.Op != "switch" || len(st.Args) < 2 {
			continue
		}
		var wid int
		fmt.Sscanf(st.Actor, "g%d", &wid)
		script = append(script, Switch{Kind: st.Mode, W: wid, At: st.Args[0], To: int(st.Args[1])})
	}
	if script == nil {
		script = []Switch{}
	}
	if len(cfg.History) > 0 && !replayed && len(history) == 0 {
		// bring the process into the state the group met
		ho := o
		ho.Tier = cfg.Tier
		for _, h := range cfg.History {
			World{}.Generate(h, ho)
			if poisoned {
				break
			}
		}
	}
	replayed = true
	res := w.exec(&cfg, nil, script, o)
	if res.Case != nil {
		res.Case.SubSeed = c.SubSeed
		res.Case.Seed = c.Seed
	}
	return res
}

// Simplify: drop one member hand.
func (w World) Simplify(c *sim.Case) []*sim.Case {
	var cfg Cfg
	if json.Unmarshal(c.Config, &cfg) != nil || len(cfg.Members) <= 2 {
		return nil
	}
	var out []*sim.Case
	for d := range cfg.Members {
		n := Cfg{Policy: cfg.Policy, Cold: cfg.Cold, Tier: cfg.Tier, History: cfg.History}
		remap := map[int]int{}
		for i, m := range cfg.Members {
			if i != d {
				remap[i] = len(n.Members)
				n.Members = append(n.Members, m)
			}
		}
		cc := c.Clone()
		cj, _ := json.Marshal(n)
		cc.Config = cj
		cc.Steps = nil
		for _, st := range c.Steps {
			var wid int
			fmt.Sscanf(st.Actor, "g%d", &wid)
			if len(st.Args) < 2 {
				continue
			}
			to := int(st.Args[1])
			nw, ok1 := remap[wid]
			nt, ok2 := remap[to]
			if st.Mode == "s" {
				if ok2 {
					s2 := st
					s2.Args = []int64{st.Args[0], int64(nt)}
					cc.Steps = append(cc.Steps, s2)
				}
				continue
			}
			if !ok1 || !ok2 {
				continue
			}
			s2 := st
			s2.Actor = fmt.Sprintf("g%d", nw)
			s2.Args = []int64{st.Args[0], int64(nt)}
			cc.Steps = append(cc.Steps, s2)
		}
		out = append(out, cc)
	}
	return out
}
