//go:build verifyield

package conc

import "github.com/weedbox/pokerface/verifyield"

func available() bool { return true }

// Available reports whether this binary was built over the generated copy.
func Available() bool { return true }

func install(h func(fid int), b func()) { verifyield.H, verifyield.B = h, b }

func installU(u func()) { verifyield.U = u }

func funcNames() []string { return verifyield.FuncNames }
