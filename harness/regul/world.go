// Package regul is world R: the tournament regulator coordinating simulated
// tables that follow its instructions, a registrar and a director, with
// releases travelling through a transport that may delay them behind other
// tables' syncs.
package regul

import (
	"encoding/json"
	"fmt"
	"runtime"
	"sort"
	"strconv"
	"sync"
	"time"

	"verif/harness/sim"

	"github.com/weedbox/pokerface/regulator"
)

type Cfg struct {
	Max     int    `json:"max_players_per_table"`
	Min     int    `json:"min_initial_players"`
	PickKey uint64 `json:"pick_key"` // owns the map-iteration choice in getAvailableTable
}

type simTable struct {
	id      string
	members []string
	broken  bool
}

type release struct {
	table   string
	players []string
}

type run struct {
	cfg   *Cfg
	opt   sim.Options
	res   *sim.Result
	on    func(string) bool
	reg   regulator.Regulator
	pick  *sim.RNG
	steps []sim.Step
	dead  bool

	status     int
	tables     map[string]*simTable
	order      []string // creation order of live tables
	everTables int
	nextPlayer int
	alive      map[string]bool
	registered int
	inflight   []release
	seenT      map[uint64]bool

	// per-operation context for the callbacks
	allowed          map[string]bool // ids that may legitimately be handed out by the current operation
	handed           map[string]bool // ids handed out so far in the whole history and not yet back in the queue
	opFirstAlloc     bool            // the current operation started with zero tables
	firstAllocMin    int
	changesAfterSync bool

	// a sync of another table issued from a second goroutine while the
	// regulator is inside the assign callback (it must block on the
	// regulator's lock until the outer operation is over)
	nestTable string
	nestRel   int // >= 0: instead of a sync, the in-flight release with this index arrives on the second goroutine
	nest      *nested

	// transient delivery failure of an assignment: the callback answers with
	// an error once, the regulator's immediate retry succeeds
	failAssign bool
	failedOnce bool
}

type nested struct {
	release   *release // a ReleasePlayers call instead of a sync
	table     string
	goid      int64
	done      chan struct{}
	rel       int
	np        []string
	err       error
	pan       string
	ranInside bool // it completed while the outer operation was still inside its callback
}

var runs sync.Map // regulator.Regulator -> *run

func init() {
	regulator.VerifPickTable = func(r regulator.Regulator, ids []string) int {
		if v, ok := runs.Load(r); ok {
			return v.(*run).pick.Intn(len(ids))
		}
		return 0
	}
}

func (r *run) viol(prop, sig, detail string) {
	if r.on(prop) {
		r.res.Violate(prop, sig, detail, len(r.steps)-1)
	}
}

func (r *run) probe(name string) { r.res.Count("probe."+name, 1) }

func newRun(cfg *Cfg, opt sim.Options) *run {
	r := &run{cfg: cfg, opt: opt, res: &sim.Result{}, tables: map[string]*simTable{}, alive: map[string]bool{},
		handed: map[string]bool{}, seenT: map[uint64]bool{}}
	p := opt.Property
	r.on = func(id string) bool { return p == "" || p == id }
	r.pick = sim.NewRNG(cfg.PickKey)
	r.reg = regulator.NewRegulator(
		regulator.MaxPlayersPerTable(cfg.Max),
		regulator.MinInitialPlayers(cfg.Min),
		regulator.WithRequestTableFn(r.requestTable),
		regulator.WithAssignPlayersFn(r.assignPlayers),
	)
	runs.Store(r.reg, r)
	return r
}

func (r *run) close() { runs.Delete(r.reg) }

// ---- callbacks: the simulated tables ---------------------------------------------

func (r *run) checkHandout(where string, players []string) {
	seen := map[string]bool{}
	for _, p := range players {
		if seen[p] {
			r.viol("C09", "player-handed-out-twice", fmt.Sprintf("%s: %s appears twice in %v", where, p, players))
		}
		seen[p] = true
		if !r.alive[p] {
			r.viol("C09", "unknown-or-eliminated-player-handed-out", fmt.Sprintf("%s hands out %s", where, p))
			continue
		}
		if r.handed[p] {
			r.viol("C09", "player-handed-out-twice", fmt.Sprintf("%s hands out %s who is already at a table", where, p))
		}
		if !r.allowed[p] {
			r.viol("C09", "handed-out-player-was-not-waiting", fmt.Sprintf("%s hands out %s who was not in the waiting queue", where, p))
		}
		r.handed[p] = true
	}
}

func (r *run) requestTable(players []string) (string, error) {
	r.everTables++
	id := fmt.Sprintf("t%d", r.everTables)
	r.checkHandout("requestTableFn("+id+")", players)
	if len(players) > r.cfg.Max {
		r.viol("C19", "new-table-over-capacity", fmt.Sprintf("requestTableFn got %d players, max per table %d (min initial %d, registered alive %d, tables %d)", len(players), r.cfg.Max, r.cfg.Min, len(r.alive), len(r.order)))
	}
	if r.status == regulator.CompetitionStatus_Pending {
		r.viol("C19", "table-opened-before-start", fmt.Sprintf("requestTableFn called while the competition is pending (%d registered)", len(r.alive)))
	}
	if r.registered < r.cfg.Min {
		r.viol("C19", "table-opened-before-minimum-registered", fmt.Sprintf("requestTableFn called with %d registered, minimum %d", r.registered, r.cfg.Min))
	}
	if r.opFirstAlloc {
		r.probe("initial-allocation-table")
		if len(players) < r.cfg.Min {
			r.viol("C19", "initial-table-below-minimum", fmt.Sprintf("a table of the initial allocation got %d players, minimum %d (max %d, alive %d)", len(players), r.cfg.Min, r.cfg.Max, len(r.alive)))
		}
	}
	r.tables[id] = &simTable{id: id, members: append([]string{}, players...)}
	r.order = append(r.order, id)
	return id, nil
}

func (r *run) assignPlayers(tableID string, players []string) error {
	t := r.tables[tableID]
	if t == nil || t.broken {
		r.viol("C09", "players-assigned-to-unknown-table", fmt.Sprintf("assignPlayersFn(%s, %v)", tableID, players))
		return nil
	}
	if r.failAssign && !r.failedOnce {
		// the assignment could not be delivered this time; nobody was seated
		r.failedOnce = true
		r.res.Count("fault.assign-callback-transient-error", 1)
		return fmt.Errorf("table %s unreachable", tableID)
	}
	r.checkHandout("assignPlayersFn("+tableID+")", players)
	t.members = append(t.members, players...)
	r.launchNested(tableID)
	if len(t.members) > r.cfg.Max {
		r.viol("C19", "top-up-over-capacity", fmt.Sprintf("assignPlayersFn raised table %s to %d players, max %d", tableID, len(t.members), r.cfg.Max))
	}
	return nil
}

// ---- observation -------------------------------------------------------------------

func (r *run) queue() []string {
	q, ok := r.reg.(interface{ VerifWaitingQueue() []string })
	if !ok {
		r.res.Fault = "regulator built without the verif tag (no queue snapshot)"
		r.dead = true
		return nil
	}
	return q.VerifWaitingQueue()
}

type obs struct {
	players, tables int
	queue           []string
	tbl             map[string]regulator.Table
}

func (r *run) observe() obs {
	o := obs{players: r.reg.GetPlayerCount(), tables: r.reg.GetTableCount(), queue: r.queue(), tbl: map[string]regulator.Table{}}
	for _, id := range r.order {
		if t := r.reg.GetTable(id); t != nil {
			o.tbl[id] = *t
		}
	}
	return o
}

func (o obs) equal(p obs) bool {
	if o.players != p.players || o.tables != p.tables || len(o.queue) != len(p.queue) || len(o.tbl) != len(p.tbl) {
		return false
	}
	for i := range o.queue {
		if o.queue[i] != p.queue[i] {
			return false
		}
	}
	for k, v := range o.tbl {
		if p.tbl[k] != v {
			return false
		}
	}
	return true
}

// sizeGuard stops a run whose simulated world has grown beyond anything the
// registered players could fill (more seated players than three times the
// field, more live tables than players, a waiting queue several times the
// field). This only happens after the
// regulator has handed the same players out again and again; every violation
// recorded so far is kept, nothing further can be learnt from the run, and
// without the stop the sweeps of settle() double the world each time.
func (r *run) sizeGuard() {
	if r.dead {
		return
	}
	seated, live := 0, 0
	for _, id := range r.order {
		if t := r.tables[id]; !t.broken {
			live++
			seated += len(t.members)
		}
	}
	if seated > 3*len(r.alive)+60 || live > len(r.alive)+8 || len(r.queue()) > 3*len(r.alive)+60 {
		r.res.Count("guard.world-outgrew-the-field", 1)
		r.dead = true
	}
}

// account: every alive player is in exactly one place; counters agree (C09)
func (r *run) account() {
	r.sizeGuard()
	if r.dead || !r.on("C09") {
		return
	}
	place := map[string]string{}
	put := func(p, where string) {
		if prev, ok := place[p]; ok {
			r.viol("C09", "player-in-two-places", fmt.Sprintf("%s is in %s and in %s", p, prev, where))
			return
		}
		place[p] = where
	}
	q := r.queue()
	for _, p := range q {
		put(p, "the waiting queue")
	}
	live := 0
	for _, id := range r.order {
		t := r.tables[id]
		if t.broken {
			continue
		}
		live++
		for _, p := range t.members {
			put(p, "table "+id)
		}
	}
	for i, rel := range r.inflight {
		for _, p := range rel.players {
			put(p, fmt.Sprintf("in-flight release %d of %s", i, rel.table))
		}
	}
	placed := make([]string, 0, len(place))
	for p := range place {
		placed = append(placed, p)
	}
	sort.Strings(placed)
	for _, p := range placed {
		if !r.alive[p] {
			r.viol("C09", "eliminated-or-unknown-player-present", fmt.Sprintf("%s is in %s", p, place[p]))
		}
	}
	if len(place) != len(r.alive) {
		var lost []string
		for p := range r.alive {
			if _, ok := place[p]; !ok {
				lost = append(lost, p)
			}
		}
		sort.Strings(lost)
		if len(lost) > 0 {
			r.viol("C09", "player-lost", fmt.Sprintf("%v are neither waiting, at a table, nor in a release in flight (queue %v)", lost, q))
		}
	}
	if c := r.reg.GetPlayerCount(); c != len(r.alive) {
		r.viol("C09", "player-total-miscounted", fmt.Sprintf("GetPlayerCount=%d, alive players %d", c, len(r.alive)))
	}
	if c := r.reg.GetTableCount(); c != live {
		r.viol("C09", "table-count-miscounted", fmt.Sprintf("GetTableCount=%d, live tables %d", c, live))
	}
	for _, id := range r.order {
		t := r.tables[id]
		rt := r.reg.GetTable(id)
		if t.broken {
			if rt != nil {
				r.viol("C09", "broken-table-still-known", fmt.Sprintf("table %s", id))
			}
			continue
		}
		if rt == nil {
			r.viol("C09", "live-table-unknown-to-regulator", fmt.Sprintf("table %s with %d members", id, len(t.members)))
			continue
		}
		if rt.PlayerCount != len(t.members) {
			r.viol("C09", "table-player-count-miscounted", fmt.Sprintf("table %s: regulator says %d, the table has %d", id, rt.PlayerCount, len(t.members)))
		}
		if len(t.members) > r.cfg.Max {
			r.viol("C19", "table-over-capacity", fmt.Sprintf("table %s has %d members, max %d", id, len(t.members), r.cfg.Max))
		}
	}
}

// ---- operations ----------------------------------------------------------------------

func (r *run) liveTables() []string {
	var out []string
	for _, id := range r.order {
		if !r.tables[id].broken {
			out = append(out, id)
		}
	}
	return out
}

func (r *run) guard(f func()) {
	defer func() {
		if x := recover(); x != nil {
			r.viol("C09", "panic", fmt.Sprint(x))
			r.viol("C19", "panic", fmt.Sprint(x))
			r.viol("C20", "panic", fmt.Sprint(x))
			r.dead = true
		}
	}()
	f()
}

func (r *run) beginOp(extra []string) {
	r.allowed = map[string]bool{}
	for _, p := range r.queue() {
		r.allowed[p] = true
		delete(r.handed, p)
	}
	for _, p := range extra {
		r.allowed[p] = true
		delete(r.handed, p)
	}
	r.opFirstAlloc = len(r.liveTables()) == 0
}

func (r *run) trans(kind, outcome string) {
	k := sim.Mix(sim.HashString(kind+"/"+outcome), uint64(r.status), uint64(len(r.liveTables())), uint64(boolI(len(r.inflight) > 0)))
	if !r.seenT[k] {
		r.seenT[k] = true
		r.res.Trans = append(r.res.Trans, k)
		r.res.States = append(r.res.States, sim.Mix(uint64(r.status), uint64(len(r.liveTables())), uint64(boolI(len(r.inflight) > 0))))
	}
}

func boolI(b bool) int {
	if b {
		return 1
	}
	return 0
}

func (r *run) opAdd(n int) {
	ids := make([]string, n)
	for i := range ids {
		r.nextPlayer++
		ids[i] = fmt.Sprintf("p%d", r.nextPlayer)
	}
	before := r.observe()
	r.beginOp(ids)
	late := r.status == regulator.CompetitionStatus_AfterRegDeadline
	if !late {
		for _, p := range ids {
			r.alive[p] = true
		}
		r.registered += n
	}
	var err error
	r.guard(func() { err = r.reg.AddPlayers(ids) })
	if r.dead {
		return
	}
	r.finishNested()
	if late {
		r.probe("registration-after-deadline")
		if err == nil {
			r.viol("C09", "late-registration-accepted", fmt.Sprintf("AddPlayers(%d) after the deadline returned nil", n))
		}
		if !before.equal(r.observe()) {
			r.viol("C09", "refused-call-changed-state", "AddPlayers after the deadline changed the regulator's state")
		}
		r.trans("add", "refused")
		return
	}
	if err != nil {
		r.viol("C09", "registration-refused", fmt.Sprintf("AddPlayers(%d) returned %v", n, err))
	}
	r.trans("add", "ok")
}

func (r *run) opStatus(s int) {
	r.beginOp(nil)
	r.status = s // the callbacks run inside SetStatus and see the new status
	r.guard(func() { r.reg.SetStatus(regulator.CompetitionStatus(s)) })
	r.finishNested()
	r.trans("status", fmt.Sprint(s))
}

// choose k members by key (the table's own choice, replay-stable)
func chooseMembers(members []string, k int, key uint64) (picked, rest []string) {
	idx := make([]int, len(members))
	for i := range idx {
		idx[i] = i
	}
	rng := sim.NewRNG(key)
	for i := len(idx) - 1; i > 0; i-- {
		j := rng.Intn(i + 1)
		idx[i], idx[j] = idx[j], idx[i]
	}
	take := map[int]bool{}
	for _, i := range idx[:k] {
		take[i] = true
	}
	for i, m := range members {
		if take[i] {
			picked = append(picked, m)
		} else {
			rest = append(rest, m)
		}
	}
	return
}

// opSync: table id eliminates `out` members and syncs; it then follows the
// regulator's instructions. Returns (released, received, broke).
func (r *run) opSync(id string, out int, key uint64) (int, int, bool) {
	t := r.tables[id]
	if t == nil || t.broken {
		// stale / unknown table: must be refused without changing anything
		before := r.observe()
		r.beginOp(nil)
		var err error
		// a stale table may well report eliminations: nothing may change
		r.guard(func() { _, _, err = r.reg.SyncState(id, out) })
		if r.dead {
			return 0, 0, false
		}
		r.probe("sync-of-unknown-or-broken-table")
		if err == nil {
			// refused = any error (it may be wrapped or carry context)
			r.viol("C09", "unknown-table-not-refused", fmt.Sprintf("SyncState(%s) returned %v", id, err))
		}
		if r.reg.GetTable(id) != nil {
			r.viol("C09", "unknown-table-not-refused", fmt.Sprintf("GetTable(%s) is not nil", id))
		}
		if !before.equal(r.observe()) {
			r.viol("C09", "refused-call-changed-state", fmt.Sprintf("SyncState(%s) for an unknown table changed the regulator's state", id))
		}
		r.trans("sync-unknown", "refused")
		return 0, 0, false
	}
	if out > len(t.members)-1 {
		out = len(t.members) - 1
	}
	if out < 0 {
		out = 0
	}
	gone, rest := chooseMembers(t.members, out, key)
	t.members = rest
	for _, p := range gone {
		delete(r.alive, p)
		delete(r.handed, p)
	}
	if out > 0 {
		r.changesAfterSync = true
	}
	r.beginOp(nil)
	var rel int
	var np []string
	var err error
	r.guard(func() { rel, np, err = r.reg.SyncState(id, out) })
	if r.dead {
		return 0, 0, false
	}
	// a call that arrived on the second goroutine during a callback of this
	// sync completes now (it was waiting for the lock); only then does this
	// goroutine touch the simulated tables again
	r.finishNested()
	if r.dead {
		return 0, 0, false
	}
	a, b, c := r.follow(id, out, key, rel, np, err)
	return a, b, c
}

// follow: the table carries out what a successful sync told it to do.
func (r *run) follow(id string, out int, key uint64, rel int, np []string, err error) (int, int, bool) {
	t := r.tables[id]
	if err != nil {
		r.viol("C09", "sync-of-live-table-refused", fmt.Sprintf("SyncState(%s,%d) returned %v", id, out, err))
		return 0, 0, false
	}
	if rel < 0 || rel > len(t.members) {
		r.viol("C09", "release-count-out-of-range", fmt.Sprintf("SyncState(%s,%d) asks for %d releases, the table has %d members", id, out, rel, len(t.members)))
		rel = 0
	}
	if rel > 0 && len(np) > 0 {
		r.viol("C20", "release-and-receive-at-once", fmt.Sprintf("SyncState(%s) asks to release %d and hands out %v", id, rel, np))
	}
	// follow the instructions
	r.checkHandout("SyncState("+id+")", np)
	broke := r.reg.GetTable(id) == nil
	if broke {
		r.probe("table-broken")
		if rel != len(t.members) {
			r.viol("C20", "broken-table-did-not-release-everybody", fmt.Sprintf("table %s broken with %d members, told to release %d", id, len(t.members), rel))
		}
		if len(np) > 0 {
			r.viol("C09", "players-handed-to-broken-table", fmt.Sprintf("table %s broken and handed %v", id, np))
		}
		if len(t.members) > 0 {
			r.inflight = append(r.inflight, release{table: id, players: append([]string{}, t.members...)})
		}
		for _, p := range t.members {
			delete(r.handed, p)
		}
		t.members = nil
		t.broken = true
	} else {
		if rel > 0 {
			r.probe("release-requested")
			picked, rest := chooseMembers(t.members, rel, key^0x5eed)
			t.members = rest
			for _, p := range picked {
				delete(r.handed, p)
			}
			r.inflight = append(r.inflight, release{table: id, players: picked})
		}
		if len(np) > 0 {
			r.probe("players-received-on-sync")
			t.members = append(t.members, np...)
			if len(t.members) > r.cfg.Max {
				r.viol("C19", "top-up-over-capacity", fmt.Sprintf("SyncState raised table %s to %d players, max %d", id, len(t.members), r.cfg.Max))
			}
		}
	}
	outc := "quiet"
	switch {
	case broke:
		outc = "break"
	case rel > 0:
		outc = "release"
	case len(np) > 0:
		outc = "receive"
	}
	r.trans("sync", outc)
	return rel, len(np), broke
}

func (r *run) opDeliver(k int) {
	if len(r.inflight) == 0 {
		return
	}
	k = ((k % len(r.inflight)) + len(r.inflight)) % len(r.inflight)
	rel := r.inflight[k]
	r.inflight = append(append([]release{}, r.inflight[:k]...), r.inflight[k+1:]...)
	r.beginOp(rel.players)
	var err error
	r.guard(func() { err = r.reg.ReleasePlayers(rel.table, rel.players) })
	if r.dead {
		return
	}
	r.finishNested()
	if err != nil {
		r.viol("C09", "release-refused", fmt.Sprintf("ReleasePlayers(%s,%v) returned %v", rel.table, rel.players, err))
	}
	// C20: the players handed back by a broken table are each queued for
	// (or already seated at) another table
	if t := r.tables[rel.table]; t != nil && t.broken && r.on("C20") {
		where := map[string]bool{}
		for _, p := range r.queue() {
			where[p] = true
		}
		for _, id := range r.order {
			if !r.tables[id].broken {
				for _, p := range r.tables[id].members {
					where[p] = true
				}
			}
		}
		for _, fl := range r.inflight {
			for _, p := range fl.players {
				where[p] = true // already asked to move again by a later sync
			}
		}
		for _, p := range rel.players {
			if !where[p] {
				r.viol("C20", "player-of-broken-table-stranded", fmt.Sprintf("%s, released by broken table %s, is neither queued nor seated at another table", p, rel.table))
			}
		}
	}
	r.trans("deliver", "ok")
}

func (r *run) opLookupUnknown(id string) {
	before := r.observe()
	var t *regulator.Table
	r.guard(func() { t = r.reg.GetTable(id) })
	if r.tables[id] == nil || r.tables[id].broken {
		if t != nil {
			r.viol("C09", "unknown-table-not-refused", fmt.Sprintf("GetTable(%s) returned a table", id))
		}
	}
	if !r.dead && !before.equal(r.observe()) {
		r.viol("C09", "refused-call-changed-state", "GetTable changed the regulator's state")
	}
}

// apply executes one trace step.
func (r *run) apply(st *sim.Step) {
	r.res.Steps++
	a := func(i int) int64 {
		if i < len(st.Args) {
			return st.Args[i]
		}
		return 0
	}
	r.nestTable = ""
	r.nestRel = -1
	r.failAssign, r.failedOnce = false, false
	for _, x := range st.SArgs {
		if x == "fail-assign-once" {
			r.failAssign = true
		}
	}
	for _, x := range st.SArgs {
		if len(x) > 5 && x[:5] == "nest:" {
			r.nestTable = x[5:]
		}
		if len(x) > 8 && x[:8] == "nestrel:" {
			if k, err := strconv.Atoi(x[8:]); err == nil && k >= 0 {
				r.nestRel = k
			}
		}
	}
	switch st.Op {
	case "add":
		n := int(a(0))
		if n < 1 {
			n = 1
		}
		if n > 200 {
			n = 200
		}
		r.opAdd(n)
	case "status":
		s := int(a(0))
		if s < 0 || s > 2 {
			return
		}
		r.opStatus(s)
	case "sync":
		id := ""
		if len(st.SArgs) > 0 {
			id = st.SArgs[0]
		}
		r.opSync(id, int(a(0)), uint64(a(1)))
	case "deliver":
		r.opDeliver(int(a(0)))
	case "lookup":
		id := ""
		if len(st.SArgs) > 0 {
			id = st.SArgs[0]
		}
		r.opLookupUnknown(id)
	}
	if !r.dead {
		r.account()
	}
	if r.opt.KeepLog && !r.dead {
		o := r.observe()
		h := sim.Mix(uint64(o.players), uint64(o.tables), uint64(len(o.queue)), uint64(len(r.inflight)))
		for _, q := range o.queue {
			h = sim.Mix(h, sim.HashString(q))
		}
		for _, id := range r.order {
			h = sim.Mix(h, sim.HashString(id), uint64(len(r.tables[id].members)))
			for _, m := range r.tables[id].members {
				h = sim.Mix(h, sim.HashString(m))
			}
		}
		r.res.Log = append(r.res.Log, h)
	}
}

// settle is the C20 end-of-history check: no more registrations or
// eliminations; sweep (sync every live table once, carry out every
// instruction, deliver every release) until a sweep is quiet.
func (r *run) settle(orderKey uint64) {
	if r.dead || r.status == regulator.CompetitionStatus_Pending {
		return
	}
	rng := sim.NewRNG(orderKey)
	T := len(r.liveTables())
	bound := 2*T + 6
	for sweep := 1; sweep <= bound+1; sweep++ {
		// releases still in flight are delivered first (in a drawn order)
		for len(r.inflight) > 0 && !r.dead {
			r.opDeliver(rng.Intn(len(r.inflight)))
			r.account()
		}
		ids := r.liveTables()
		perm := rng.Perm(len(ids))
		active := false
		for _, i := range perm {
			if r.dead {
				return
			}
			rel, recv, broke := r.opSync(ids[i], 0, rng.Uint64())
			r.account()
			if rel > 0 || recv > 0 || broke {
				active = true
			}
			// a table delivers its release at once or at the end of the sweep
			if len(r.inflight) > 0 && rng.Chance(0.5) {
				r.opDeliver(len(r.inflight) - 1)
				r.account()
			}
		}
		if !active && len(r.inflight) == 0 {
			r.probe(fmt.Sprintf("settled-in-%02d-sweeps", sweep))
			if sweep > 1 {
				r.probe("settling-needed-more-than-one-sweep")
			}
			return
		}
		if sweep > bound {
			r.viol("C20", "rebalancing-did-not-settle", fmt.Sprintf("%d sweeps over %d tables (max %d, min %d, alive %d) and still moving players", sweep, T, r.cfg.Max, r.cfg.Min, len(r.alive)))
			return
		}
	}
}

// ---- world -----------------------------------------------------------------------------

type World struct{}

func (World) Name() string { return "R" }

func (World) Components() map[string]string {
	return map[string]string{
		"regulator (regulator/regulator.go, build tag verif: queue snapshot, table choice)": "real",
		"tables (member lists, carrying out release / assign / break instructions)":         "simulated, instruction-following",
		"registrar, director (status changes), transport of release messages":               "simulated",
		"competition/*, match/* (the production callers of the regulator)":                  "not run",
	}
}

func drawCfg(rng *sim.RNG) *Cfg {
	c := &Cfg{PickKey: rng.Uint64()}
	if rng.Chance(0.3) {
		c.Max, c.Min = 9, 6
	} else {
		c.Max = 2 + rng.Intn(9)
		c.Min = 2 + rng.Intn(c.Max-1)
	}
	return c
}

func (w World) Generate(subseed uint64, o sim.Options) *sim.Result {
	rng := sim.NewRNG(subseed)
	cfg := drawCfg(rng)
	r := newRun(cfg, o)
	defer r.close()
	cj, _ := json.Marshal(cfg)
	c := &sim.Case{World: "R", Property: o.Property, SubSeed: subseed, Config: cj}
	do := func(st sim.Step) {
		if r.dead {
			return
		}
		r.steps = append(r.steps, st)
		r.apply(&r.steps[len(r.steps)-1])
	}
	nsteps := 10 + rng.Intn(70)
	// swarm: a large field (many full tables) in some runs - several
	// balancing decisions only differ when the player total sits near a
	// multiple of the table capacity with ten or so tables
	if rng.Chance(0.12) {
		tablesWanted := 4 + rng.Intn(9)
		n := tablesWanted*cfg.Max - rng.Intn(3)
		if n > 200 {
			n = 200
		}
		bust := rng.Chance(0.6)
		if bust {
			n = tablesWanted * cfg.Max // every table full ...
			if n > 200 {
				n = (200 / cfg.Max) * cfg.Max
			}
		}
		do(sim.Step{Actor: "registrar", Op: "add", Args: []int64{int64(n)}})
		do(sim.Step{Actor: "director", Op: "status", Args: []int64{1}})
		r.res.Count("probe.large-field", 1)
		if live := r.liveTables(); bust && len(live) > 1 {
			// ... then one table busts down to a single player: the total
			// sits one above a multiple of the capacity
			id := live[rng.Intn(len(live))]
			do(sim.Step{Actor: "table", Op: "sync", SArgs: []string{id}, Args: []int64{100, int64(rng.Uint64() >> 1)}})
			r.res.Count("probe.table-busted-to-one-player", 1)
			if rng.Chance(0.7) {
				nsteps = rng.Intn(5) // settle (almost) from here
			}
		}
	}
	// swarm: registration style and timing
	bigBatch := rng.Chance(0.4)
	startAt := rng.Intn(8)
	deadlineAt := startAt + 3 + rng.Intn(nsteps)
	delayRate := []float64{0, 0.3, 0.8}[rng.Intn(3)]
	elimMax := 1 + rng.Intn(3)
	nestRate := []float64{0, 0.1, 0.4}[rng.Intn(3)]
	// Transient callback errors are NOT injected: the unchanged regulator
	// itself loses players when assignPlayersFn fails once (dispatchPlayer
	// keeps going with a stale candidate list), and C09/C19/C20 are stated
	// for tables that follow instructions. The replay executor still
	// understands the "fail-assign-once" annotation (kept for experiments).
	failRate := 0.0
	for i := 0; i < nsteps && !r.dead; i++ {
		if i == startAt {
			do(sim.Step{Actor: "director", Op: "status", Args: []int64{1}})
			continue
		}
		if i == deadlineAt {
			do(sim.Step{Actor: "director", Op: "status", Args: []int64{2}})
			continue
		}
		live := r.liveTables()
		w := []int{25, 45, 15, 4, 3, 3} // add, sync, deliver, stale sync, lookup, repeated status
		if len(live) == 0 {
			w[1] = 0
		}
		if len(r.inflight) == 0 {
			w[2] = 0
		}
		switch rng.Weighted(w) {
		case 0:
			n := 1
			switch {
			case bigBatch && rng.Chance(0.3):
				n = 10 + rng.Intn(60)
			case rng.Chance(0.5):
				n = 1 + rng.Intn(cfg.Max+2)
			}
			fault := ""
			if r.status == 2 {
				fault = "registration-after-deadline"
				r.res.Count("fault.registration-after-deadline", 1)
			}
			st := sim.Step{Actor: "registrar", Op: "add", Args: []int64{int64(n)}, Fault: fault}
			if len(live) > 1 && rng.Chance(nestRate) {
				st.SArgs = []string{"nest:" + live[rng.Intn(len(live))]}
				if len(r.inflight) > 0 && rng.Chance(0.5) {
					st.SArgs = []string{fmt.Sprintf("nestrel:%d", rng.Intn(len(r.inflight)))}
				}
			} else if rng.Chance(failRate) {
				st.SArgs = []string{"fail-assign-once"}
			}
			do(st)
		case 1:
			id := live[rng.Intn(len(live))]
			out := 0
			if rng.Chance(0.55) {
				out = 1 + rng.Intn(elimMax)
				if rng.Chance(0.08) {
					out = 100 // everybody but one
				}
			}
			syncStep := sim.Step{Actor: "table", Op: "sync", SArgs: []string{id}, Args: []int64{int64(out), int64(rng.Uint64() >> 1)}}
			if len(r.inflight) > 0 && rng.Chance(nestRate) {
				// a release in transit arrives while this sync is inside a callback
				syncStep.SArgs = append(syncStep.SArgs, fmt.Sprintf("nestrel:%d", rng.Intn(len(r.inflight))))
			}
			do(syncStep)
			// the release travels through the transport: delivered at once or later
			if len(r.inflight) > 0 {
				if rng.Chance(delayRate) {
					r.res.Count("fault.release-delayed", 1)
				} else {
					st := sim.Step{Actor: "transport", Op: "deliver", Args: []int64{int64(len(r.inflight) - 1)}}
					if len(live) > 1 && rng.Chance(nestRate) {
						st.SArgs = []string{"nest:" + live[rng.Intn(len(live))]}
					} else if rng.Chance(failRate) {
						st.SArgs = []string{"fail-assign-once"}
					}
					do(st)
				}
			}
		case 2:
			st := sim.Step{Actor: "transport", Op: "deliver", Args: []int64{int64(rng.Intn(len(r.inflight)))}, Fault: "late-release"}
			if len(live) > 1 && rng.Chance(nestRate) {
				st.SArgs = []string{"nest:" + live[rng.Intn(len(live))]}
				if len(r.inflight) > 1 && rng.Chance(0.5) {
					st.SArgs = []string{fmt.Sprintf("nestrel:%d", rng.Intn(len(r.inflight)-1))}
				}
			} else if rng.Chance(failRate) {
				st.SArgs = []string{"fail-assign-once"}
			}
			do(st)
			r.res.Count("fault.late-release-delivered", 1)
		case 3:
			id := fmt.Sprintf("t%d", 1+rng.Intn(r.everTables+3))
			if rng.Chance(0.3) {
				id = "no-such-table"
			}
			r.res.Count("fault.stale-or-unknown-sync", 1)
			do(sim.Step{Actor: "table", Op: "sync", SArgs: []string{id}, Args: []int64{int64(rng.Intn(3)), 0}, Fault: "stale-sync"})
		case 4:
			do(sim.Step{Actor: "table", Op: "lookup", SArgs: []string{fmt.Sprintf("t%d", 1+rng.Intn(r.everTables+3))}})
		case 5:
			r.res.Count("fault.repeated-status", 1)
			do(sim.Step{Actor: "director", Op: "status", Args: []int64{int64(r.status)}, Fault: "repeated-status"})
		}
	}
	settleKey := rng.Uint64()
	r.steps = append(r.steps, sim.Step{Actor: "harness", Op: "settle", Args: []int64{int64(settleKey >> 1)}})
	r.settle(settleKey >> 1)
	c.Steps = r.steps
	r.res.Case = c
	r.res.Nontrivial = r.everTables > 0 && r.changesAfterSync
	return r.res
}

func (w World) Replay(c *sim.Case, o sim.Options) *sim.Result {
	var cfg Cfg
	if err := json.Unmarshal(c.Config, &cfg); err != nil {
		return &sim.Result{Fault: "bad config: " + err.Error()}
	}
	if cfg.Max < 2 || cfg.Min < 2 || cfg.Min > cfg.Max {
		return &sim.Result{Fault: "bad settings"}
	}
	r := newRun(&cfg, o)
	defer r.close()
	cc := c.Clone()
	settled := false
	for i := range c.Steps {
		if r.dead {
			break
		}
		st := c.Steps[i]
		r.steps = append(r.steps, st)
		if st.Op == "settle" {
			k := uint64(0)
			if len(st.Args) > 0 {
				k = uint64(st.Args[0])
			}
			r.settle(k)
			settled = true
			continue
		}
		r.apply(&r.steps[len(r.steps)-1])
	}
	if !settled && !r.dead {
		r.settle(1)
	}
	cc.Steps = r.steps
	r.res.Case = cc
	return r.res
}

func (w World) Simplify(c *sim.Case) []*sim.Case {
	var out []*sim.Case
	for i, s := range c.Steps {
		switch s.Op {
		case "add":
			if len(s.Args) > 0 && s.Args[0] > 1 {
				for _, v := range []int64{s.Args[0] / 2, s.Args[0] - 1} {
					if v >= 1 && v != s.Args[0] {
						x := c.Clone()
						x.Steps[i].Args[0] = v
						out = append(out, x)
					}
				}
			}
		case "sync":
			if len(s.Args) > 0 && s.Args[0] > 0 {
				x := c.Clone()
				x.Steps[i].Args[0] = s.Args[0] - 1
				out = append(out, x)
			}
		}
		if s.Fault != "" {
			x := c.Clone()
			x.Steps[i].Fault = ""
			out = append(out, x)
		}
	}
	return out
}

// ---- a second caller during the assign callback -----------------------------------

// launchNested is called from inside assignPlayersFn, i.e. while the
// regulator is in the middle of an operation. Another table's sync arrives on
// a second goroutine. The regulator's lock must make it wait; whether it does
// is observed (mutex wait reason), not assumed.
func (r *run) launchNested(assignedTo string) {
	if r.nestRel >= 0 && r.nest == nil && len(r.inflight) > 0 {
		r.launchNestedRelease()
		return
	}
	if r.nestTable == "" || r.nest != nil || r.nestTable == assignedTo {
		return
	}
	t := r.tables[r.nestTable]
	if t == nil || t.broken {
		return
	}
	n := &nested{table: r.nestTable, done: make(chan struct{})}
	r.nest = n
	ready := make(chan struct{})
	go func() {
		n.goid = sim.GoID()
		close(ready)
		defer close(n.done)
		defer func() {
			if x := recover(); x != nil {
				n.pan = fmt.Sprint(x)
			}
		}()
		n.rel, n.np, n.err = r.reg.SyncState(n.table, 0)
	}()
	<-ready
	r.res.Count("fault.sync-during-assign-callback", 1)
	deadline := time.Now().Add(5 * time.Second)
	for spins := 0; ; spins++ {
		select {
		case <-n.done:
			n.ranInside = true
			r.probe("nested-sync-ran-inside-the-callback")
			// the other table follows its instructions right away
			if n.pan == "" {
				r.follow(n.table, 0, 0x5e5, n.rel, n.np, n.err)
			}
			return
		default:
		}
		if spins > 20 {
			if sim.BlockedOnLock(map[int64]bool{n.goid: true})[n.goid] {
				r.probe("nested-sync-blocked-on-the-lock")
				return
			}
			time.Sleep(20 * time.Microsecond)
		} else {
			runtime.Gosched()
		}
		if time.Now().After(deadline) {
			r.res.Fault = "watchdog: nested sync neither finished nor blocked"
			r.dead = true
			return
		}
	}
}

// launchNestedRelease: a release that is in transit arrives on a second
// goroutine while the regulator is inside the assign callback.
func (r *run) launchNestedRelease() {
	k := r.nestRel % len(r.inflight)
	rel := r.inflight[k]
	r.inflight = append(append([]release{}, r.inflight[:k]...), r.inflight[k+1:]...)
	n := &nested{release: &rel, table: rel.table, done: make(chan struct{})}
	r.nest = n
	// the released players go to the queue and may be handed out from there
	for _, p := range rel.players {
		r.allowed[p] = true
	}
	ready := make(chan struct{})
	go func() {
		n.goid = sim.GoID()
		close(ready)
		defer close(n.done)
		defer func() {
			if x := recover(); x != nil {
				n.pan = fmt.Sprint(x)
			}
		}()
		n.err = r.reg.ReleasePlayers(rel.table, rel.players)
	}()
	<-ready
	r.res.Count("fault.release-during-assign-callback", 1)
	deadline := time.Now().Add(5 * time.Second)
	for spins := 0; ; spins++ {
		select {
		case <-n.done:
			n.ranInside = true
			r.probe("nested-release-ran-inside-the-callback")
			return
		default:
		}
		if spins > 20 {
			if sim.BlockedOnLock(map[int64]bool{n.goid: true})[n.goid] {
				r.probe("nested-release-blocked-on-the-lock")
				return
			}
			time.Sleep(20 * time.Microsecond)
		} else {
			runtime.Gosched()
		}
		if time.Now().After(deadline) {
			r.res.Fault = "watchdog: nested release neither finished nor blocked"
			r.dead = true
			return
		}
	}
}

// finishNested is called after the outer operation has returned: a nested
// sync that had to wait for the lock completes now and is followed.
func (r *run) finishNested() {
	n := r.nest
	if n == nil {
		return
	}
	// nothing further is armed: the callbacks that the waiting call itself
	// triggers (on its goroutine, from now on) must not launch another one
	r.nestRel, r.nestTable = -1, ""
	if !n.ranInside {
		select {
		case <-n.done:
		case <-time.After(5 * time.Second):
			r.res.Fault = "watchdog: nested call did not finish after the outer operation"
			r.dead = true
			return
		}
	}
	r.nest = nil
	if n.pan != "" {
		r.viol("C09", "panic", n.pan)
		r.viol("C20", "panic", n.pan)
		r.dead = true
		return
	}
	if n.release != nil {
		if n.err != nil {
			r.viol("C09", "release-refused", fmt.Sprintf("ReleasePlayers(%s,%v) arriving during another call returned %v", n.release.table, n.release.players, n.err))
		}
		return
	}
	if n.ranInside {
		return
	}
	// its hand-outs come from the queue as it is now
	for _, p := range r.queue() {
		r.allowed[p] = true
	}
	for _, p := range n.np {
		r.allowed[p] = true
	}
	r.follow(n.table, 0, 0x5e5, n.rel, n.np, n.err)
}
