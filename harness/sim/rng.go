// Package sim is the simulator core shared by the three worlds: one PRNG per
// run (derived from VERIF_SEED), a discrete-event loop on virtual time, the
// trace / replay-file format, the violation and known-finding protocol, the
// batch runner and the delta-debugging minimiser. It does not import
// pokerface.
package sim

// RNG is a SplitMix64 generator. Every choice of a simulated run (schedule,
// delays, faults, generated operations, configuration) is drawn from exactly
// one RNG seeded with the run's sub-seed.
type RNG struct{ s uint64 }

func NewRNG(seed uint64) *RNG { return &RNG{s: seed} }

func (r *RNG) Uint64() uint64 {
	r.s += 0x9e3779b97f4a7c15
	z := r.s
	z = (z ^ (z >> 30)) * 0xbf58476d1ce4e5b9
	z = (z ^ (z >> 27)) * 0x94d049bb133111eb
	return z ^ (z >> 31)
}

// Intn returns a value in [0,n). n<=0 yields 0.
func (r *RNG) Intn(n int) int {
	if n <= 1 {
		return 0
	}
	return int(r.Uint64() % uint64(n))
}

func (r *RNG) Int63n(n int64) int64 {
	if n <= 1 {
		return 0
	}
	return int64(r.Uint64() % uint64(n))
}

// Range returns a value in [lo,hi] inclusive.
func (r *RNG) Range(lo, hi int) int {
	if hi <= lo {
		return lo
	}
	return lo + r.Intn(hi-lo+1)
}

func (r *RNG) Float() float64 { return float64(r.Uint64()>>11) / float64(1<<53) }

func (r *RNG) Chance(p float64) bool {
	if p <= 0 {
		return false
	}
	if p >= 1 {
		return true
	}
	return r.Float() < p
}

func (r *RNG) Perm(n int) []int {
	p := make([]int, n)
	for i := range p {
		p[i] = i
	}
	for i := n - 1; i > 0; i-- {
		j := r.Intn(i + 1)
		p[i], p[j] = p[j], p[i]
	}
	return p
}

// Weighted picks an index with probability proportional to w[i].
func (r *RNG) Weighted(w []int) int {
	t := 0
	for _, x := range w {
		t += x
	}
	if t <= 0 {
		return 0
	}
	k := r.Intn(t)
	for i, x := range w {
		if k < x {
			return i
		}
		k -= x
	}
	return len(w) - 1
}

func (r *RNG) PickInt64(xs []int64) int64 { return xs[r.Intn(len(xs))] }

// Fork derives an independent generator (used to keep sub-decisions stable
// when unrelated draws are added elsewhere).
func (r *RNG) Fork(tag uint64) *RNG { return NewRNG(Mix(r.Uint64(), tag)) }

// Mix hashes its arguments into one 64-bit value (sub-seed derivation).
func Mix(a uint64, parts ...uint64) uint64 {
	h := a ^ 0x51afd7ed558ccd
	for _, p := range parts {
		h ^= p + 0x9e3779b97f4a7c15 + (h << 6) + (h >> 2)
		h *= 0xff51afd7ed558ccd
		h ^= h >> 33
	}
	h *= 0xc4ceb9fe1a85ec53
	h ^= h >> 29
	return h
}

// HashString is FNV-1a.
func HashString(s string) uint64 {
	h := uint64(14695981039346656037)
	for i := 0; i < len(s); i++ {
		h ^= uint64(s[i])
		h *= 1099511628211
	}
	return h
}

func HashBytes(b []byte) uint64 {
	h := uint64(14695981039346656037)
	for i := 0; i < len(b); i++ {
		h ^= uint64(b[i])
		h *= 1099511628211
	}
	return h
}
