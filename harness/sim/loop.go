package sim

import "container/heap"

// Event is one entry of the discrete-event queue, totally ordered by
// (At, Seq).
type Event struct {
	At  int64
	Seq uint64
	Run func()
}

type eventHeap []Event

func (h eventHeap) Len() int { return len(h) }
func (h eventHeap) Less(i, j int) bool {
	if h[i].At != h[j].At {
		return h[i].At < h[j].At
	}
	return h[i].Seq < h[j].Seq
}
func (h eventHeap) Swap(i, j int)       { h[i], h[j] = h[j], h[i] }
func (h *eventHeap) Push(x interface{}) { *h = append(*h, x.(Event)) }
func (h *eventHeap) Pop() interface{} {
	old := *h
	n := len(old)
	x := old[n-1]
	*h = old[:n-1]
	return x
}

// Loop is the virtual clock plus event queue. Now is the only clock any
// simulated party reads; when nothing is runnable the clock jumps.
type Loop struct {
	Now    int64 // virtual microseconds
	seq    uint64
	q      eventHeap
	Events uint64
}

func (l *Loop) After(d int64, f func()) {
	if d < 0 {
		d = 0
	}
	l.seq++
	heap.Push(&l.q, Event{At: l.Now + d, Seq: l.seq, Run: f})
}

func (l *Loop) Pending() int { return l.q.Len() }

// Step runs the next event; false when the queue is empty.
func (l *Loop) Step() bool {
	if l.q.Len() == 0 {
		return false
	}
	ev := heap.Pop(&l.q).(Event)
	l.Now = ev.At
	l.Events++
	ev.Run()
	return true
}
