package sim

import (
	"encoding/json"
	"fmt"
	"sort"
)

// Step is one delivered operation of a trace. It is explicit and
// self-contained: the replay executor feeds steps to the real code without
// PRNG, clients or transport.
type Step struct {
	T     int64    `json:"t"`               // virtual time of delivery (informational)
	Actor string   `json:"actor"`           // who issued it
	Op    string   `json:"op"`              // operation name
	Args  []int64  `json:"args,omitempty"`  // integer arguments
	SArgs []string `json:"sargs,omitempty"` // string arguments (player ids ...)
	Mode  string   `json:"mode,omitempty"`  // execution mode chosen by the fault schedule (warm/cold/hop, goroutine id ...)
	Fault string   `json:"fault,omitempty"` // fault context that produced the delivery (dup, stale, byz, retx, late ...)
}

func (s Step) String() string {
	x := fmt.Sprintf("%s.%s", s.Actor, s.Op)
	if len(s.Args) > 0 {
		x += fmt.Sprint(s.Args)
	}
	if len(s.SArgs) > 0 {
		x += fmt.Sprint(s.SArgs)
	}
	if s.Mode != "" {
		x += "@" + s.Mode
	}
	if s.Fault != "" {
		x += "!" + s.Fault
	}
	return x
}

// Case is a replay file: configuration + delivered steps (+ the violation
// it is expected to reproduce).
type Case struct {
	World    string          `json:"world"`
	Property string          `json:"property,omitempty"`
	Seed     uint64          `json:"verif_seed"`
	SubSeed  uint64          `json:"subseed"`
	Config   json.RawMessage `json:"config"`
	Steps    []Step          `json:"steps"`
	Expect   *Expect         `json:"expect,omitempty"`
	Note     string          `json:"note,omitempty"`
}

type Expect struct {
	Property  string `json:"property"`
	Signature string `json:"signature"`
	Detail    string `json:"detail"`
	Step      int    `json:"step"`
}

func (c *Case) Clone() *Case {
	d := *c
	d.Steps = append([]Step(nil), c.Steps...)
	for i := range d.Steps {
		d.Steps[i].Args = append([]int64(nil), c.Steps[i].Args...)
		d.Steps[i].SArgs = append([]string(nil), c.Steps[i].SArgs...)
	}
	d.Config = append(json.RawMessage(nil), c.Config...)
	return &d
}

// Violation of a property. Sig identifies the oracle clause and the
// discriminating facts; known-finding entries match on (Property, Sig).
type Violation struct {
	Property string `json:"property"`
	Sig      string `json:"signature"`
	Detail   string `json:"detail"`
	Step     int    `json:"step"`
}

// Result of one simulated run (generated or replayed).
type Result struct {
	Case         *Case
	Violations   []Violation
	Counters     map[string]int64 // fired faults, reach probes, op outcome classes
	Trans        []uint64         // hashes of (abstract state, op class, outcome) transitions seen
	States       []uint64         // hashes of abstract states seen
	Nontrivial   bool
	Steps        int
	SimTime      int64
	Tainted      string // signature of the tainting known finding that cut the run short
	Fault        string // harness fault (never a violation): watchdog, non-determinism ...
	Inconclusive int
	Log          []uint64 // per-step state hashes (determinism self-test)
}

func (r *Result) Count(k string, n int64) {
	if r.Counters == nil {
		r.Counters = map[string]int64{}
	}
	r.Counters[k] += n
}

func (r *Result) Violate(prop, sig, detail string, step int) {
	// one report per (property, signature) per run keeps runs cheap and
	// minimisation targets stable
	for _, v := range r.Violations {
		if v.Property == prop && v.Sig == sig {
			return
		}
	}
	r.Violations = append(r.Violations, Violation{prop, sig, detail, step})
}

// Options given to a world for one run.
type Options struct {
	Property string // property whose oracles are evaluated ("" = all)
	Tier     string // quick | thorough
	Known    *Known
	KeepLog  bool // record per-step hashes
	Seed     uint64
}

// World is one of the three simulated worlds.
type World interface {
	Name() string
	// Generate runs one complete simulation from the sub-seed.
	Generate(subseed uint64, o Options) *Result
	// Replay re-executes a recorded case without any PRNG.
	Replay(c *Case, o Options) *Result
	// Simplify proposes simpler variants of a case (world-specific
	// shrinking beyond dropping steps).
	Simplify(c *Case) []*Case
	// Components describes which parts are real code and which are stubs.
	Components() map[string]string
}

func SortedKeys(m map[string]int64) []string {
	ks := make([]string, 0, len(m))
	for k := range m {
		ks = append(ks, k)
	}
	sort.Strings(ks)
	return ks
}
