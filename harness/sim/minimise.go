package sim

import "time"

// Minimise shrinks a failing case by delta debugging over its steps and
// then by the world's own simplifications, keeping a candidate only when
// replay reports a violation of the same property with the same signature.
func Minimise(w World, c *Case, prop, sig string, o Options, budget time.Duration) (*Case, int) {
	deadline := time.Now().Add(budget)
	tries := 0
	fails := func(x *Case) bool {
		tries++
		r := w.Replay(x, o)
		for _, v := range r.Violations {
			if v.Property == prop && v.Sig == sig {
				return true
			}
		}
		return false
	}
	cur := c.Clone()
	if !fails(cur) {
		return cur, tries // caller detects the non-reproducing replay
	}
	for round := 0; round < 6 && time.Now().Before(deadline); round++ {
		before := len(cur.Steps)
		changed := false
		// 1. truncate after the violating step is found by trying prefixes
		// (cheap big win), then ddmin
		n := 2
		for len(cur.Steps) >= 1 && time.Now().Before(deadline) {
			chunk := (len(cur.Steps) + n - 1) / n
			reduced := false
			for start := 0; start < len(cur.Steps); start += chunk {
				end := start + chunk
				if end > len(cur.Steps) {
					end = len(cur.Steps)
				}
				cand := cur.Clone()
				cand.Steps = append(append([]Step(nil), cur.Steps[:start]...), cur.Steps[end:]...)
				if fails(cand) {
					cur = cand
					if n > 2 {
						n--
					}
					reduced = true
					changed = true
					break
				}
				if time.Now().After(deadline) {
					break
				}
			}
			if !reduced {
				if chunk <= 1 {
					break
				}
				n *= 2
				if n > len(cur.Steps) {
					n = len(cur.Steps)
				}
			}
		}
		// 2. world-specific simplifications, greedily to fixpoint
		for pass := 0; pass < 20 && time.Now().Before(deadline); pass++ {
			progress := false
			for _, cand := range w.Simplify(cur) {
				if time.Now().After(deadline) {
					break
				}
				if fails(cand) {
					cur = cand
					progress = true
					changed = true
					break
				}
			}
			if !progress {
				break
			}
		}
		if !changed && len(cur.Steps) == before {
			break
		}
	}
	return cur, tries
}
