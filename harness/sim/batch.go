package sim

import (
	"sort"
	"sync"
	"sync/atomic"
	"time"
)

// progress of the batch running in this process (read by the watchdog of a
// single-worker child process, cmd/simcheck): runs completed, and the index
// and sub-seed of the run in execution.
var progDone, progIdx int64
var progSub uint64

func Progress() (done, idx int64, sub uint64) {
	return atomic.LoadInt64(&progDone), atomic.LoadInt64(&progIdx), atomic.LoadUint64(&progSub)
}

// VioRec aggregates one (property, signature) over a batch.
type VioRec struct {
	Property string  `json:"property"`
	Sig      string  `json:"signature"`
	Count    int64   `json:"count"`
	FirstRun int64   `json:"first_run"`
	Detail   string  `json:"detail"`
	Step     int     `json:"step"`
	Case     *Case   `json:"case,omitempty"`
	More     []*Case `json:"more,omitempty"` // a few further failing cases (fallback when the first does not reproduce on its own)
}

// Agg is what a batch (or a shard of it) measured. It is JSON-serialisable
// so that shards run in child processes can be merged by the parent.
type Agg struct {
	Runs         int64              `json:"runs"`
	Steps        int64              `json:"steps"`
	SimTime      int64              `json:"sim_time_us"`
	Nontrivial   int64              `json:"nontrivial_runs"`
	Counters     map[string]int64   `json:"counters"`
	Trans        map[uint64]bool    `json:"-"`
	States       map[uint64]bool    `json:"-"`
	NTTrans      map[uint64]bool    `json:"-"` // transitions seen in non-trivial runs
	TransList    []uint64           `json:"trans,omitempty"`
	StatesList   []uint64           `json:"states,omitempty"`
	NTTransList  []uint64           `json:"nt_trans,omitempty"`
	Viol         map[string]*VioRec `json:"violations"`
	Tainted      map[string]int64   `json:"tainted"`
	Faults       []string           `json:"harness_faults,omitempty"`
	Inconclusive int64              `json:"inconclusive"`
	Samples      []*Case            `json:"samples,omitempty"`
	WallS        float64            `json:"wall_s"`
}

func NewAgg() *Agg {
	return &Agg{Counters: map[string]int64{}, Trans: map[uint64]bool{}, States: map[uint64]bool{},
		NTTrans: map[uint64]bool{}, Viol: map[string]*VioRec{}, Tainted: map[string]int64{}}
}

func (a *Agg) Add(idx int64, r *Result, wantSample bool) {
	a.Runs++
	a.Steps += int64(r.Steps)
	a.SimTime += r.SimTime
	a.Inconclusive += int64(r.Inconclusive)
	for k, v := range r.Counters {
		a.Counters[k] += v
	}
	for _, t := range r.Trans {
		a.Trans[t] = true
	}
	for _, s := range r.States {
		a.States[s] = true
	}
	if r.Nontrivial {
		a.Nontrivial++
		for _, t := range r.Trans {
			a.NTTrans[t] = true
		}
	}
	if r.Tainted != "" {
		a.Tainted[r.Tainted]++
	}
	if r.Fault != "" && len(a.Faults) < 8 {
		a.Faults = append(a.Faults, r.Fault)
	}
	for _, v := range r.Violations {
		key := v.Property + "|" + v.Sig
		rec := a.Viol[key]
		if rec == nil {
			rec = &VioRec{Property: v.Property, Sig: v.Sig, FirstRun: idx, Detail: v.Detail, Step: v.Step, Case: r.Case}
			a.Viol[key] = rec
		} else if idx < rec.FirstRun {
			if len(rec.More) < 15 {
				rec.More = append(rec.More, rec.Case)
			}
			rec.FirstRun, rec.Detail, rec.Step, rec.Case = idx, v.Detail, v.Step, r.Case
		} else if len(rec.More) < 15 {
			rec.More = append(rec.More, r.Case)
		}
		rec.Count++
	}
	if wantSample && r.Case != nil && len(a.Samples) < 3 && r.Nontrivial {
		a.Samples = append(a.Samples, r.Case)
	}
}

// Seal converts the sets into sorted lists (for JSON transport).
func (a *Agg) Seal() {
	a.TransList = setList(a.Trans)
	a.StatesList = setList(a.States)
	a.NTTransList = setList(a.NTTrans)
}

// Unseal rebuilds the sets after JSON decoding.
func (a *Agg) Unseal() {
	a.Trans, a.States, a.NTTrans = map[uint64]bool{}, map[uint64]bool{}, map[uint64]bool{}
	for _, x := range a.TransList {
		a.Trans[x] = true
	}
	for _, x := range a.StatesList {
		a.States[x] = true
	}
	for _, x := range a.NTTransList {
		a.NTTrans[x] = true
	}
	if a.Counters == nil {
		a.Counters = map[string]int64{}
	}
	if a.Viol == nil {
		a.Viol = map[string]*VioRec{}
	}
	if a.Tainted == nil {
		a.Tainted = map[string]int64{}
	}
}

func setList(m map[uint64]bool) []uint64 {
	l := make([]uint64, 0, len(m))
	for k := range m {
		l = append(l, k)
	}
	sort.Slice(l, func(i, j int) bool { return l[i] < l[j] })
	return l
}

func (a *Agg) Merge(b *Agg) {
	a.Runs += b.Runs
	a.Steps += b.Steps
	a.SimTime += b.SimTime
	a.Nontrivial += b.Nontrivial
	a.Inconclusive += b.Inconclusive
	for k, v := range b.Counters {
		a.Counters[k] += v
	}
	for k := range b.Trans {
		a.Trans[k] = true
	}
	for k := range b.States {
		a.States[k] = true
	}
	for k := range b.NTTrans {
		a.NTTrans[k] = true
	}
	for k, v := range b.Tainted {
		a.Tainted[k] += v
	}
	for _, f := range b.Faults {
		if len(a.Faults) < 8 {
			a.Faults = append(a.Faults, f)
		}
	}
	for k, v := range b.Viol {
		rec := a.Viol[k]
		if rec == nil {
			c := *v
			a.Viol[k] = &c
			continue
		}
		rec.Count += v.Count
		if v.FirstRun < rec.FirstRun {
			if len(rec.More) < 15 {
				rec.More = append(rec.More, rec.Case)
			}
			rec.FirstRun, rec.Detail, rec.Step, rec.Case = v.FirstRun, v.Detail, v.Step, v.Case
		} else if len(rec.More) < 15 {
			rec.More = append(rec.More, v.Case)
		}
		for _, c := range v.More {
			if len(rec.More) < 15 {
				rec.More = append(rec.More, c)
			}
		}
	}
	for _, s := range b.Samples {
		if len(a.Samples) < 3 {
			a.Samples = append(a.Samples, s)
		}
	}
}

// Batch describes a set of runs: indices First, First+Stride, ... up to Runs
// (count-bounded) and/or until the deadline (time-bounded).
type Batch struct {
	World           World
	Opt             Options
	Tag             uint64 // mixed into every sub-seed (property / sub-batch)
	Runs            int64  // number of run indices to cover (0 = unbounded, use Budget)
	Budget          time.Duration
	Workers         int
	First           int64
	Stride          int64
	StopOnViolation bool // stop handing out new runs once an unknown violation is seen
}

func (b *Batch) SubSeed(i int64) uint64 { return Mix(b.Opt.Seed, b.Tag, uint64(i)) }

// Run executes the batch on Workers goroutines. Results are a function of
// the set of indices covered, not of the worker count.
func (b *Batch) Run() *Agg {
	start := time.Now()
	stride := b.Stride
	if stride <= 0 {
		stride = 1
	}
	workers := b.Workers
	if workers <= 0 {
		workers = 1
	}
	var mu sync.Mutex
	next := b.First
	stop := false
	total := NewAgg()
	var wg sync.WaitGroup
	for w := 0; w < workers; w++ {
		wg.Add(1)
		go func() {
			defer wg.Done()
			local := NewAgg()
			for {
				mu.Lock()
				i := next
				if stop || (b.Runs > 0 && i >= b.Runs) || (b.Budget > 0 && time.Since(start) > b.Budget) {
					mu.Unlock()
					break
				}
				next += stride
				mu.Unlock()
				atomic.StoreInt64(&progIdx, i)
				atomic.StoreUint64(&progSub, b.SubSeed(i))
				r := b.World.Generate(b.SubSeed(i), b.Opt)
				atomic.AddInt64(&progDone, 1)
				if r.Case != nil {
					r.Case.Seed = b.Opt.Seed
				}
				local.Add(i, r, true)
				if b.StopOnViolation {
					for _, v := range r.Violations {
						if b.Opt.Known.Match(v.Property, v.Sig) == nil {
							mu.Lock()
							stop = true
							mu.Unlock()
						}
					}
				}
			}
			mu.Lock()
			total.Merge(local)
			mu.Unlock()
		}()
	}
	wg.Wait()
	total.WallS = time.Since(start).Seconds()
	return total
}
