package sim

import (
	"bufio"
	"os"
	"strings"
)

// Known is the committed known-findings file. Format, one entry per line:
//
//	known: property=C16 taint=no sig=<signature> :: <what fails>
//	fixed: property=C04 <commit> sig=<signature> :: <what failed>
//
// `known` entries turn a violation with exactly that (property, signature)
// into a KNOWN-FINDING line; `fixed` entries suppress nothing. The file is
// never written at run time.
type Known struct {
	Entries []KnownEntry
}

type KnownEntry struct {
	Kind     string // known | fixed
	Property string
	Sig      string
	Taint    bool
	What     string
	Commit   string
}

func LoadKnown(path string) (*Known, error) {
	k := &Known{}
	f, err := os.Open(path)
	if err != nil {
		if os.IsNotExist(err) {
			return k, nil
		}
		return nil, err
	}
	defer f.Close()
	sc := bufio.NewScanner(f)
	for sc.Scan() {
		line := strings.TrimSpace(sc.Text())
		if line == "" || strings.HasPrefix(line, "#") {
			continue
		}
		var e KnownEntry
		switch {
		case strings.HasPrefix(line, "known:"):
			e.Kind = "known"
			line = strings.TrimSpace(line[len("known:"):])
		case strings.HasPrefix(line, "fixed:"):
			e.Kind = "fixed"
			line = strings.TrimSpace(line[len("fixed:"):])
		default:
			continue
		}
		head := line
		if i := strings.Index(line, "::"); i >= 0 {
			head = strings.TrimSpace(line[:i])
			e.What = strings.TrimSpace(line[i+2:])
		}
		// sig= runs to the end of head (signatures may contain spaces)
		if i := strings.Index(head, "sig="); i >= 0 {
			e.Sig = strings.TrimSpace(head[i+4:])
			head = head[:i]
		}
		for _, f := range strings.Fields(head) {
			switch {
			case strings.HasPrefix(f, "property="):
				e.Property = f[len("property="):]
			case strings.HasPrefix(f, "taint="):
				e.Taint = f[len("taint="):] == "yes"
			default:
				e.Commit = f
			}
		}
		k.Entries = append(k.Entries, e)
	}
	return k, sc.Err()
}

// Match returns the known (not fixed) entry for a violation, if any.
func (k *Known) Match(prop, sig string) *KnownEntry {
	if k == nil {
		return nil
	}
	for i := range k.Entries {
		e := &k.Entries[i]
		if e.Kind == "known" && e.Property == prop && e.Sig == sig {
			return e
		}
	}
	return nil
}

// Tainting reports whether sig is a tainting known finding (of any
// property): the run is abandoned at that step by every check.
func (k *Known) Tainting(sig string) *KnownEntry {
	if k == nil {
		return nil
	}
	for i := range k.Entries {
		e := &k.Entries[i]
		if e.Kind == "known" && e.Taint && e.Sig == sig {
			return e
		}
	}
	return nil
}
