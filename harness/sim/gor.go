package sim

import (
	"bytes"
	"runtime"
	"strconv"
)

// GoID returns the id of the calling goroutine (parsed from its stack header).
func GoID() int64 {
	var buf [64]byte
	n := runtime.Stack(buf[:], false)
	b := buf[:n]
	b = b[len("goroutine "):]
	i := bytes.IndexByte(b, ' ')
	id, _ := strconv.ParseInt(string(b[:i]), 10, 64)
	return id
}

var lockReasons = [][]byte{[]byte("sync.Mutex.Lock"), []byte("sync.RWMutex.Lock"), []byte("sync.RWMutex.RLock")}

// BlockedOnLock reads the wait reason of the given goroutines from a full
// stack dump and returns those blocked on a mutex. Only the three mutex wait
// reasons count; the generic "semacquire" also shows up transiently around GC
// and must not.
func BlockedOnLock(ids map[int64]bool) map[int64]bool {
	out := map[int64]bool{}
	buf := make([]byte, 1<<16)
	for {
		n := runtime.Stack(buf, true)
		if n < len(buf) {
			buf = buf[:n]
			break
		}
		buf = make([]byte, 2*len(buf))
	}
	for _, blk := range bytes.Split(buf, []byte("\n\n")) {
		if !bytes.HasPrefix(blk, []byte("goroutine ")) {
			continue
		}
		b := blk[len("goroutine "):]
		i := bytes.IndexByte(b, ' ')
		if i < 0 {
			continue
		}
		id, err := strconv.ParseInt(string(b[:i]), 10, 64)
		if err != nil || !ids[id] {
			continue
		}
		j := bytes.IndexByte(b, '[')
		k := bytes.IndexByte(b, ']')
		if j < 0 || k < j {
			continue
		}
		status := b[j+1 : k]
		for _, r := range lockReasons {
			if bytes.HasPrefix(status, r) {
				out[id] = true
			}
		}
	}
	return out
}
