// yieldgen: makes a scratch copy of the repository in which every statement
// of the engine packages is preceded by a scheduling point
// (verifyield.Y(<function id>)). The copy is only ever used to build the
// "concurrent hands" simulator binary; with no hook installed a scheduling
// point is one nil test.
//
//	yieldgen <repo> <dst>
//
// Text is spliced at statement start offsets, so line numbers, comments and
// build constraints of the original files stay as they are.
package main

import (
	"fmt"
	"go/ast"
	"go/importer"
	"go/parser"
	"go/token"
	"go/types"
	"io"
	"os"
	"path/filepath"
	"sort"
	"strings"
)

// directories (relative to the repository root) whose files get scheduling
// points; "table" only for the stateless backend
var instrumentDirs = map[string]func(name string) bool{
	".":           func(string) bool { return true },
	"pot":         func(string) bool { return true },
	"settlement":  func(string) bool { return true },
	"combination": func(string) bool { return true },
	"table":       func(n string) bool { return n == "native_backend.go" },
	// world S over generated scheduling points (math/rand stays: the run
	// seeds it, as in the hand-placed variant)
	"seat_manager": func(string) bool { return true },
}

const importPath = "github.com/weedbox/pokerface/verifyield"

var funcNames []string

// mapRanges[dir][file:line:col of the "for"] = true for range statements over
// maps (found by type-checking the package; on failure the map is empty and
// the copy keeps Go's randomised iteration, which only makes recorded switch
// positions less stable)
var mapRanges = map[string]map[string]bool{}

// lockSites[dir][file:line:col of the call] = "TryLock" | "TryRLock" for
// statements x.Lock() / x.RLock() on a value that also has the Try variant
// (sync.Mutex, sync.RWMutex, directly or embedded): in the copy they become
// "for !x.TryLock() { verifyield.Blocked() }", so a hand that cannot take a
// lock held by a parked hand yields to the simulator instead of blocking
var lockSites = map[string]map[string]string{}
var lockRewrites int

// unlockSites[dir][file:line:col] = "stmt" | "defer" for x.Unlock() / x.RUnlock()
// statements on the same kind of value: the copy tells the simulator that a
// lock has just been released (the statements that follow are where a result
// computed under the lock is still being used)
var unlockSites = map[string]map[string]string{}
var unlockMarks int
var poolRewrites int
var typeImporter types.Importer
var typeFset = token.NewFileSet()
var rangeSites int

func typeCheck(src, dir string) map[string]bool {
	out := map[string]bool{}
	if dir == "table" {
		return out // only one file of it is instrumented; its dependencies are many
	}
	abs := filepath.Join(src, dir)
	pkgs, err := parser.ParseDir(typeFset, abs, func(fi os.FileInfo) bool { return !strings.HasSuffix(fi.Name(), "_test.go") }, 0)
	if err != nil {
		fmt.Fprintf(os.Stderr, "yieldgen: %s: %v (map iteration left as it is)\n", dir, err)
		return out
	}
	if typeImporter == nil {
		typeImporter = importer.ForCompiler(typeFset, "source", nil)
	}
	for _, p := range pkgs {
		if strings.HasSuffix(p.Name, "_test") || p.Name == "main" {
			continue
		}
		var files []*ast.File
		for name, f := range p.Files {
			if keepForBuild(name) {
				files = append(files, f)
			}
		}
		info := &types.Info{Types: map[ast.Expr]types.TypeAndValue{}}
		conf := types.Config{Importer: typeImporter, Error: func(error) {}}
		tpkg, err := conf.Check(abs, typeFset, files, info)
		if err == nil {
			locks := map[string]string{}
			for _, f := range files {
				ast.Inspect(f, func(n ast.Node) bool {
					es, ok := n.(*ast.ExprStmt)
					if !ok {
						return true
					}
					call, ok := es.X.(*ast.CallExpr)
					if !ok || len(call.Args) != 0 {
						return true
					}
					sel, ok := call.Fun.(*ast.SelectorExpr)
					if !ok || (sel.Sel.Name != "Lock" && sel.Sel.Name != "RLock") {
						return true
					}
					tv, ok := info.Types[sel.X]
					if !ok || tv.Type == nil {
						return true
					}
					try := "Try" + sel.Sel.Name
					obj, _, _ := types.LookupFieldOrMethod(tv.Type, true, tpkg, try)
					if fn, ok := obj.(*types.Func); ok && fn != nil {
						pos := typeFset.Position(es.Pos())
						locks[fmt.Sprintf("%s:%d:%d", filepath.Base(pos.Filename), pos.Line, pos.Column)] = try
					}
					return true
				})
			}
			lockSites[dir] = locks
			unl := map[string]string{}
			note := func(call *ast.CallExpr, pos token.Pos, kind string) {
				if call == nil || len(call.Args) != 0 {
					return
				}
				sel, ok := call.Fun.(*ast.SelectorExpr)
				if !ok || (sel.Sel.Name != "Unlock" && sel.Sel.Name != "RUnlock") {
					return
				}
				tv, ok := info.Types[sel.X]
				if !ok || tv.Type == nil {
					return
				}
				obj, _, _ := types.LookupFieldOrMethod(tv.Type, true, tpkg, "TryLock")
				if fn, ok := obj.(*types.Func); ok && fn != nil {
					p := typeFset.Position(pos)
					unl[fmt.Sprintf("%s:%d:%d", filepath.Base(p.Filename), p.Line, p.Column)] = kind
				}
			}
			for _, f := range files {
				ast.Inspect(f, func(n ast.Node) bool {
					switch x := n.(type) {
					case *ast.ExprStmt:
						if c, ok := x.X.(*ast.CallExpr); ok {
							note(c, x.Pos(), "stmt")
						}
					case *ast.DeferStmt:
						note(x.Call, x.Pos(), "defer")
					}
					return true
				})
			}
			unlockSites[dir] = unl
		}
		if err != nil {
			fmt.Fprintf(os.Stderr, "yieldgen: %s: type check: %v (map iteration left as it is)\n", dir, err)
			return map[string]bool{}
		}
		for _, f := range files {
			ast.Inspect(f, func(n ast.Node) bool {
				if r, ok := n.(*ast.RangeStmt); ok {
					if tv, ok := info.Types[r.X]; ok && tv.Type != nil {
						if _, ok := tv.Type.Underlying().(*types.Map); ok {
							pos := typeFset.Position(r.Pos())
							out[fmt.Sprintf("%s:%d:%d", filepath.Base(pos.Filename), pos.Line, pos.Column)] = true
						}
					}
				}
				return true
			})
		}
	}
	if os.Getenv("YIELDGEN_DEBUG") != "" {
		fmt.Fprintf(os.Stderr, "yieldgen: %s: %d packages, map ranges %v\n", dir, len(pkgs), out)
	}
	return out
}

// keepForBuild: files excluded by a build constraint that the simulator's
// build does not satisfy would be type-checked twice (hook on / hook off).
func keepForBuild(name string) bool {
	b, err := os.ReadFile(name)
	if err != nil {
		return true
	}
	head := string(b)
	if i := strings.Index(head, "\npackage "); i >= 0 {
		head = head[:i]
	}
	if strings.Contains(head, "//go:build !verif") {
		return false
	}
	return true
}

func fail(f string, a ...interface{}) {
	fmt.Fprintf(os.Stderr, "yieldgen: "+f+"\n", a...)
	os.Exit(2)
}

func main() {
	if len(os.Args) != 3 {
		fail("usage: yieldgen <repo> <dst>")
	}
	src, dst := os.Args[1], os.Args[2]
	files := 0
	points := 0
	err := filepath.Walk(src, func(p string, info os.FileInfo, err error) error {
		if err != nil {
			return err
		}
		rel, _ := filepath.Rel(src, p)
		if info.IsDir() {
			if info.Name() == ".git" || rel == "verifyield" {
				return filepath.SkipDir
			}
			return nil
		}
		name := info.Name()
		keep := name == "go.mod" || name == "go.sum" || (strings.HasSuffix(name, ".go") && !strings.HasSuffix(name, "_test.go"))
		if !keep {
			return nil
		}
		out := filepath.Join(dst, rel)
		if err := os.MkdirAll(filepath.Dir(out), 0o755); err != nil {
			return err
		}
		dir := filepath.Dir(rel)
		if sel, ok := instrumentDirs[dir]; ok && strings.HasSuffix(name, ".go") && sel(name) {
			b, err := os.ReadFile(p)
			if err != nil {
				return err
			}
			if mapRanges[dir] == nil {
				mapRanges[dir] = typeCheck(src, dir)
			}
			nb, n, err := instrument(rel, b, mapRanges[dir], lockSites[dir], unlockSites[dir])
			if err != nil {
				return fmt.Errorf("%s: %v", rel, err)
			}
			files++
			points += n
			return os.WriteFile(out, nb, 0o644)
		}
		return copyFile(p, out)
	})
	if err != nil {
		fail("%v", err)
	}
	// the hook package
	var sb strings.Builder
	sb.WriteString("// Code generated by yieldgen. DO NOT EDIT.\n\npackage verifyield\n\nimport (\n\t\"fmt\"\n\t\"reflect\"\n\t\"runtime\"\n\t\"sort\"\n\t\"sync\"\n)\n\n")
	sb.WriteString("// H is the simulator's scheduling hook (nil: scheduling points do nothing).\nvar H func(fid int)\n\n")
	sb.WriteString("// B is called by a hand that cannot take a lock at the moment (nil: let other goroutines run).\nvar B func()\n\n// Blocked is one failed attempt to take a lock.\nfunc Blocked() {\n\tif B != nil {\n\t\tB()\n\t\treturn\n\t}\n\truntime.Gosched()\n}\n\n")
	sb.WriteString("// U is called right after a lock has been released (nil: nothing).\nvar U func()\n\n// Unlocked announces the release of a lock.\nfunc Unlocked() {\n\tif U != nil {\n\t\tU()\n\t}\n}\n\n")
	sb.WriteString(keysHelper)
	sb.WriteString(poolHelper)
	sb.WriteString("// Y is a scheduling point.\nfunc Y(fid int) {\n\tif H != nil {\n\t\tH(fid)\n\t}\n}\n\n")
	sb.WriteString("// FuncNames maps function ids to names.\nvar FuncNames = []string{\n")
	for _, n := range funcNames {
		fmt.Fprintf(&sb, "\t%q,\n", n)
	}
	sb.WriteString("}\n")
	if err := os.MkdirAll(filepath.Join(dst, "verifyield"), 0o755); err != nil {
		fail("%v", err)
	}
	if err := os.WriteFile(filepath.Join(dst, "verifyield", "verifyield.go"), []byte(sb.String()), 0o644); err != nil {
		fail("%v", err)
	}
	if err := os.MkdirAll(filepath.Join(dst, "verifyield", "detrand"), 0o755); err != nil {
		fail("%v", err)
	}
	if err := os.WriteFile(filepath.Join(dst, "verifyield", "detrand", "detrand.go"), []byte(detrandSrc), 0o644); err != nil {
		fail("%v", err)
	}
	fmt.Printf("yieldgen: %d files, %d functions, %d scheduling points, %d map iterations put in key order, %d lock acquisitions made visible, %d sync.Pool uses made deterministic, %d lock releases announced\n", files, len(funcNames), points, rangeSites, lockRewrites, poolRewrites, unlockMarks)
}

func copyFile(a, b string) error {
	in, err := os.Open(a)
	if err != nil {
		return err
	}
	defer in.Close()
	out, err := os.Create(b)
	if err != nil {
		return err
	}
	defer out.Close()
	_, err = io.Copy(out, in)
	return err
}

func recvName(fd *ast.FuncDecl) string {
	if fd.Recv == nil || len(fd.Recv.List) == 0 {
		return ""
	}
	t := fd.Recv.List[0].Type
	for {
		switch x := t.(type) {
		case *ast.StarExpr:
			t = x.X
			continue
		case *ast.IndexExpr:
			t = x.X
			continue
		case *ast.Ident:
			return x.Name + "."
		}
		return ""
	}
}

type ins struct {
	off int
	fid int
}

// edit: replace src[off:off+del] by text
type edit struct {
	off, del int
	text     string
}

const detrandSrc = `// Code generated by yieldgen. DO NOT EDIT.

// Package detrand stands in for math/rand in the generated copy: the same
// functions over one fixed stream; Seed restarts the stream whatever its
// argument.
package detrand

import mrand "math/rand"

type Rand = mrand.Rand
type Source = mrand.Source
type Source64 = mrand.Source64
type Zipf = mrand.Zipf

var g = mrand.New(mrand.NewSource(1))

func Seed(seed int64)                    { g = mrand.New(mrand.NewSource(1)) }
func New(src Source) *Rand               { return mrand.New(src) }
func NewSource(seed int64) Source        { return mrand.NewSource(1) }
func NewZipf(r *Rand, s float64, v float64, imax uint64) *Zipf { return mrand.NewZipf(r, s, v, imax) }
func Int63() int64                       { return g.Int63() }
func Uint32() uint32                     { return g.Uint32() }
func Uint64() uint64                     { return g.Uint64() }
func Int31() int32                       { return g.Int31() }
func Int() int                           { return g.Int() }
func Int63n(n int64) int64               { return g.Int63n(n) }
func Int31n(n int32) int32               { return g.Int31n(n) }
func Intn(n int) int                     { return g.Intn(n) }
func Float64() float64                   { return g.Float64() }
func Float32() float32                   { return g.Float32() }
func Perm(n int) []int                   { return g.Perm(n) }
func Shuffle(n int, swap func(i, j int)) { g.Shuffle(n, swap) }
func Read(p []byte) (int, error)         { return g.Read(p) }
func NormFloat64() float64               { return g.NormFloat64() }
func ExpFloat64() float64                { return g.ExpFloat64() }
`

const poolHelper = `// Pool stands in for sync.Pool in the generated copy: a last-in-first-out
// free list that never forgets an object.
type Pool struct {
	New   func() interface{}
	mu    sync.Mutex
	items []interface{}
}

func (p *Pool) Get() interface{} {
	p.mu.Lock()
	if n := len(p.items); n > 0 {
		x := p.items[n-1]
		p.items = p.items[:n-1]
		p.mu.Unlock()
		return x
	}
	p.mu.Unlock()
	if p.New != nil {
		return p.New()
	}
	return nil
}

func (p *Pool) Put(x interface{}) {
	if x == nil {
		return
	}
	p.mu.Lock()
	p.items = append(p.items, x)
	p.mu.Unlock()
}

`

const keysHelper = `// Keys returns the keys of m in a fixed order. In the generated copy every
// iteration over a map goes through it, so that the number of statements a
// hand executes does not depend on Go's randomised iteration order.
func Keys[K comparable, V any](m map[K]V) []K {
	ks := make([]K, 0, len(m))
	for k := range m {
		ks = append(ks, k)
	}
	sort.Slice(ks, func(i, j int) bool { return less(ks[i], ks[j]) })
	return ks
}

func less(a, b interface{}) bool {
	va, vb := reflect.ValueOf(a), reflect.ValueOf(b)
	switch va.Kind() {
	case reflect.Int, reflect.Int8, reflect.Int16, reflect.Int32, reflect.Int64:
		return va.Int() < vb.Int()
	case reflect.Uint, reflect.Uint8, reflect.Uint16, reflect.Uint32, reflect.Uint64, reflect.Uintptr:
		return va.Uint() < vb.Uint()
	case reflect.String:
		return va.String() < vb.String()
	case reflect.Float32, reflect.Float64:
		return va.Float() < vb.Float()
	}
	return fmt.Sprint(a) < fmt.Sprint(b)
}

`

func instrument(rel string, src []byte, maps map[string]bool, locks map[string]string, unlocks map[string]string) ([]byte, int, error) {
	fset := token.NewFileSet()
	f, err := parser.ParseFile(fset, rel, src, parser.ParseComments)
	if err != nil {
		return nil, 0, err
	}
	pkg := f.Name.Name
	if dir := filepath.Dir(rel); dir != "." {
		pkg = dir
	}
	off := func(p token.Pos) int { return fset.Position(p).Offset }
	var points []ins
	seen := map[int]bool{}
	add := func(list []ast.Stmt, fid int) {
		for _, s := range list {
			switch s.(type) {
			case *ast.CaseClause, *ast.CommClause:
				continue // the body of a switch/select is a list of clauses
			}
			o := off(s.Pos())
			if !seen[o] {
				seen[o] = true
				points = append(points, ins{o, fid})
			}
		}
	}
	walk := func(n ast.Node, fid int) {
		ast.Inspect(n, func(x ast.Node) bool {
			switch b := x.(type) {
			case *ast.BlockStmt:
				add(b.List, fid)
			case *ast.CaseClause:
				add(b.Body, fid)
			case *ast.CommClause:
				add(b.Body, fid)
			}
			return true
		})
	}
	for _, d := range f.Decls {
		switch x := d.(type) {
		case *ast.FuncDecl:
			if x.Body == nil {
				continue
			}
			fid := len(funcNames)
			funcNames = append(funcNames, pkg+"."+recvName(x)+x.Name.Name)
			walk(x.Body, fid)
		case *ast.GenDecl:
			hasLit := false
			ast.Inspect(x, func(n ast.Node) bool {
				if _, ok := n.(*ast.FuncLit); ok {
					hasLit = true
				}
				return true
			})
			if hasLit {
				fid := len(funcNames)
				funcNames = append(funcNames, pkg+".<package-level function literal in "+filepath.Base(rel)+">")
				walk(x, fid)
			}
		}
	}
	if len(points) == 0 {
		return src, 0, nil
	}
	var edits []edit
	for _, p := range points {
		edits = append(edits, edit{p.off, 0, fmt.Sprintf("verifyield.Y(%d); ", p.fid)})
	}
	// lock acquisitions become visible to the simulator
	ast.Inspect(f, func(n ast.Node) bool {
		es, ok := n.(*ast.ExprStmt)
		if !ok {
			return true
		}
		pos := fset.Position(es.Pos())
		try := locks[fmt.Sprintf("%s:%d:%d", filepath.Base(rel), pos.Line, pos.Column)]
		if try == "" {
			return true
		}
		sel := es.X.(*ast.CallExpr).Fun.(*ast.SelectorExpr)
		recv := string(src[off(sel.X.Pos()):off(sel.X.End())])
		edits = append(edits, edit{off(es.Pos()), off(es.End()) - off(es.Pos()), fmt.Sprintf("for !%s.%s() { verifyield.Blocked() }", recv, try)})
		lockRewrites++
		return true
	})
	// releases of a lock are announced to the simulator
	ast.Inspect(f, func(n ast.Node) bool {
		var pos, end token.Pos
		switch x := n.(type) {
		case *ast.ExprStmt:
			pos, end = x.Pos(), x.End()
		case *ast.DeferStmt:
			pos, end = x.Pos(), x.End()
		default:
			return true
		}
		p := fset.Position(pos)
		switch unlocks[fmt.Sprintf("%s:%d:%d", filepath.Base(rel), p.Line, p.Column)] {
		case "stmt":
			edits = append(edits, edit{off(end), 0, "; verifyield.Unlocked()"})
			unlockMarks++
		case "defer":
			// deferred calls run last-in-first-out: this one runs after the unlock
			edits = append(edits, edit{off(pos), 0, "defer verifyield.Unlocked(); "})
			unlockMarks++
		}
		return true
	})
	// sync.Pool hands out per-processor objects and forgets them at garbage
	// collections: in the copy it is a plain last-in-first-out free list
	// (the reuse a real pool may always choose, and the most adverse one)
	syncName := ""
	for _, im := range f.Imports {
		if im.Path.Value == `"sync"` {
			syncName = "sync"
			if im.Name != nil {
				syncName = im.Name.Name
			}
		}
	}
	if syncName != "" && syncName != "_" && syncName != "." {
		pools := 0
		ast.Inspect(f, func(n ast.Node) bool {
			se, ok := n.(*ast.SelectorExpr)
			if !ok || se.Sel.Name != "Pool" {
				return true
			}
			if id, ok := se.X.(*ast.Ident); ok && id.Name == syncName && id.Obj == nil {
				edits = append(edits, edit{off(se.Pos()), off(se.End()) - off(se.Pos()), "verifyield.Pool"})
				pools++
			}
			return true
		})
		if pools > 0 {
			poolRewrites += pools
			edits = append(edits, edit{len(src), 0, "\nvar _ " + syncName + ".Locker // keeps the import used (generated)\n"})
		}
	}
	// math/rand goes behind a seam: the copy draws from a fixed stream, so
	// that a shuffle costs the same statements in every execution
	for _, im := range f.Imports {
		if im.Path.Value == `"math/rand"` && filepath.Dir(rel) != "seat_manager" {
			name := ""
			if im.Name == nil {
				name = "rand "
			}
			edits = append(edits, edit{off(im.Path.Pos()), len(im.Path.Value), name + `"` + importPath + `/detrand"`})
		}
	}
	// iterations over maps, in key order
	labelOf := map[ast.Stmt]*ast.LabeledStmt{}
	ast.Inspect(f, func(n ast.Node) bool {
		if l, ok := n.(*ast.LabeledStmt); ok {
			labelOf[l.Stmt] = l
		}
		return true
	})
	ast.Inspect(f, func(n ast.Node) bool {
		r, ok := n.(*ast.RangeStmt)
		if !ok {
			return true
		}
		pos := fset.Position(r.Pos())
		if !maps[fmt.Sprintf("%s:%d:%d", filepath.Base(rel), pos.Line, pos.Column)] {
			return true
		}
		hs, he := off(r.For), off(r.Body.Lbrace)+1
		for _, p := range points {
			if p.off > hs && p.off < he {
				return true // a function literal inside the header: leave it
			}
		}
		rangeSites++
		n_ := rangeSites
		text := func(e ast.Expr) string { return string(src[off(e.Pos()):off(e.End())]) }
		tok := r.Tok.String()
		hdr := fmt.Sprintf("for _, vyk%d := range verifyield.Keys(vym%d) { vyv%d, vyok%d := vym%d[vyk%d]; if !vyok%d { continue }; _ = vyv%d; ", n_, n_, n_, n_, n_, n_, n_, n_)
		if id, ok := r.Key.(*ast.Ident); r.Key != nil && !(ok && id.Name == "_") {
			hdr += fmt.Sprintf("%s %s vyk%d; ", text(r.Key), tok, n_)
		}
		if id, ok := r.Value.(*ast.Ident); r.Value != nil && !(ok && id.Name == "_") {
			hdr += fmt.Sprintf("%s %s vyv%d; ", text(r.Value), tok, n_)
		}
		open := off(r.For)
		if l := labelOf[r]; l != nil {
			open = off(l.Pos())
		}
		edits = append(edits, edit{open, 0, fmt.Sprintf("{ vym%d := %s; ", n_, text(r.X))})
		edits = append(edits, edit{hs, he - hs, hdr})
		edits = append(edits, edit{off(r.Body.Rbrace) + 1, 0, " }"})
		return true
	})
	// apply from the end; at equal offsets the block opener goes before the
	// scheduling point, which goes before the statement
	sort.SliceStable(edits, func(i, j int) bool {
		if edits[i].off != edits[j].off {
			return edits[i].off > edits[j].off
		}
		return rank(edits[i]) > rank(edits[j])
	})
	out := append([]byte(nil), src...)
	for _, e := range edits {
		out = append(out[:e.off], append([]byte(e.text), out[e.off+e.del:]...)...)
	}
	// the import goes right after the package clause (offsets before the
	// first statement are unchanged by the splices above)
	end := fset.Position(f.Name.End()).Offset
	imp := []byte("; import verifyield \"" + importPath + "\"")
	out = append(out[:end], append(imp, out[end:]...)...)
	return out, len(points), nil
}

// rank orders edits at the same offset: higher rank is applied first, so it
// ends up later in the text.
func rank(e edit) int {
	switch {
	case e.del > 0:
		return 3 // the rewritten loop header (at the "for")
	case strings.HasPrefix(e.text, "{ vym"), strings.HasPrefix(e.text, "defer verifyield.Unlocked()"):
		return 2 // block opener, directly before the loop; announcement directly before the deferred unlock
	case strings.HasPrefix(e.text, "verifyield.Y("):
		return 1 // scheduling point before the block opener
	}
	return 0 // the closing brace after a loop body comes first in the text
}
