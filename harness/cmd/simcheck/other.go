package main

func registerOther() {}
