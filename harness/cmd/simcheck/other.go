package main

import (
	"verif/harness/regul"
	"verif/harness/seats"
	"verif/harness/sim"
)

func regS(id, title string, quick int64) {
	props[id] = &propSpec{World: func() sim.World { return seats.World{} }, WorldName: "S", QuickRuns: quick, Title: title, Shards: true,
		Rule:   "one case = one simulated history of a seat manager (table size, operation mix, junk arguments, stalled seats, bursts, quiet windows; in concurrent mode one real goroutine per operation released one at a time at the yield hooks by a seeded scheduler); non-trivial = at least one Next() after a membership change (interleaved mode) or at least one burst of operations in flight at once (concurrent mode); distinct = distinct (operation, outcome, playable seats before, seated players, target occupied, dealer present) transitions, resp. distinct (yield label, parked, unfinished) scheduler states, observed in non-trivial runs",
		Assume: []string{"math/rand is seeded per run (go1.23: rand.Seed effective) and one run executes at a time per process", "GetPlayableSeats is only called once a dealer exists (it dereferences the dealer)", "player identities are unique per join attempt"}}
}

func regR(id, title string, quick int64) {
	props[id] = &propSpec{World: func() sim.World { return regul.World{} }, WorldName: "R", QuickRuns: quick, Title: title, Shards: true,
		Rule:   "one case = one simulated tournament history (settings max/min, registration batches before and after the start, syncs with eliminations in drawn order, delayed and late release deliveries, stale and unknown table ids, late registrations, repeated status changes) followed by sweeps to a fixpoint; non-trivial = at least one table was opened AND at least one elimination was synced; distinct = distinct (operation, outcome, status, live tables, release in flight) transitions observed in non-trivial runs",
		Assume: []string{"tables follow the regulator's instructions (release exactly the number asked, seat exactly the players handed out)", "a table never eliminates its last player", "the two callbacks never return an error"}}
}

func registerOther() {
	regR("C09", "balancing never loses, duplicates or miscounts a player", 20000)
	regR("C19", "no table over capacity", 40000)
	regR("C20", "rebalancing settles", 40000)
	regS("C08", "dealer and blinds land on the right seats", 120000)
	regS("C17", "the button moves correctly", 120000)
	regS("C18", "no double booking, no crash", 60000)
	// the same world over the generated copy (scheduling points at every
	// statement of seat_manager): runs in the quick tier
	props["C08"].GenS = 3000
	props["C17"].GenS = 3000
	props["C18"].GenS = 6000
}
