// simcheck: the check / replay / self-test driver of the deterministic
// simulation harness.
//
//	simcheck check -p C01 -tier quick|thorough
//	simcheck replay <file>
//	simcheck shard ...            (internal: one process of a sharded batch)
//	simcheck dethash -p C01 -runs N   (determinism self-test: hash of all event logs)
package main

import (
	"context"
	"encoding/json"
	"flag"
	"fmt"
	"os"
	"os/exec"
	"path/filepath"
	"runtime"
	"sort"
	"strconv"
	"strings"
	"syscall"
	"time"

	"verif/harness/conc"
	"verif/harness/engine"
	"verif/harness/seats"
	"verif/harness/sim"
)

type propSpec struct {
	World     func() sim.World
	WorldName string
	QuickRuns int64
	Title     string
	Rule      string
	Shards    bool  // run in child processes (concurrent goroutine mode)
	GenS      int64 // world S over the generated copy (scheduling points at every statement of seat_manager): runs in the quick tier, 0 = not attached
	Conc      int64 // world Y (concurrent hands over the copy with scheduling points): groups in the quick tier, 0 = not attached
	Assume    []string
	Probes    []string
}

var props = map[string]*propSpec{}

// what the concurrent-hands part of the current check did (for the evidence file)
var concInfo map[string]interface{}

func regE(id, title string, quick int64) {
	props[id] = &propSpec{World: func() sim.World { return engine.World{} }, WorldName: "E", QuickRuns: quick, Title: title, Shards: true,
		Rule:   "one case = one simulated hand (drawn configuration + deck + fault mix, clients over a faulty transport, server with warm/cold-restart/backend-hop execution); non-trivial = at least one fault fired AND the hand reached GameClosed; distinct = distinct (abstract state, operation, legitimacy class, outcome) transitions observed in non-trivial runs, abstract state = (event, round, per seat folded/all-in/owes/matched, number of pots, seats)",
		Assume: []string{"combination.CalculatePower orders five-card hands correctly (C03, not simulated)", "the deck is pinned after Start() by overwriting Meta.Deck before any card is dealt", "operations outside the Game interface's Operations/Actions groups are not called"}}
}

var wanted = map[string][]string{
	"C02": {"showdown-tie", "tie-in-multi-level-pot", "odd-chip", "three-or-more-side-pots", "folded-contributor", "c02-independent-strengths"},
	"C04": {"c04-cross-product", "heads-up-open", "pass-only-seat-on-turn"},
	"C05": {"all-in-run-out", "ended-by-folds", "round-closed-by-betting", "showdown"},
	"C06": {"staller-action", "invalid-config.one-seat", "invalid-config.zero-bankroll", "invalid-config.negative-bankroll", "invalid-config.no-dealer", "invalid-config.no-deck"},
	"C10": {"four-hole-hand-checked", "short-deck-A6789-leniency"},
	"C11": {"call-completed-to-bb", "stack-between-call-and-min-raise", "stack-equals-wager"},
	"C12": {"amount-negative", "amount-zero", "raise-at-or-above-min", "raise-below-wager", "raise-exactly-min", "raise-undersized"},
	"C13": {"ante-all-in", "blind-all-in-or-exact", "dead-small-blind", "dealer-blind"},
	"C15": {"view-after-close"},
	"C16": {"folded-contributor-in-pot", "published-3+-pots"},
	"C08": {"newcomer-scenario", "newcomer-button-passed", "heads-up-positions", "first-dealer"},
	"C17": {"first-dealer", "next-refused", "next-with-fewer-than-two-playable-before"},
	"C18": {"concurrent-burst"},
	"C09": {"sync-of-unknown-or-broken-table", "registration-after-deadline", "table-broken", "release-requested", "players-received-on-sync"},
	"C19": {"initial-allocation-table"},
	"C20": {"table-broken", "settling-needed-more-than-one-sweep"},
}

func init() {
	regE("C01", "chips conserved", 24000)
	regE("C02", "showdown pays the right players", 32000)
	props["C02"].World = func() sim.World { return engine.Mixed{} }
	props["C02"].WorldName = "E+P"
	regE("C04", "only the player to act can act", 16000)
	regE("C05", "betting round closes exactly when it should", 24000)
	regE("C06", "hand always says what comes next and finishes", 24000)
	regE("C07", "resumable from JSON at every wait point", 20000)
	regE("C10", "reported hand is the true best hand", 20000)
	regE("C11", "offered actions fit the situation", 24000)
	regE("C12", "minimum raise and hostile amounts", 32000)
	regE("C13", "antes and blinds", 32000)
	regE("C14", "cards dealt without loss or duplication", 24000)
	regE("C15", "views do not leak", 8000)
	regE("C16", "published pots partition the chips", 32000)
	props["C16"].World = func() sim.World { return engine.Mixed{} }
	props["C16"].WorldName = "E+P"
	for id, n := range map[string]int64{"C01": 1600, "C02": 1200, "C04": 1000, "C05": 1000, "C06": 1000, "C07": 2400, "C10": 1600, "C11": 1000, "C12": 1000, "C13": 1000, "C14": 1600, "C15": 640, "C16": 1200} {
		props[id].Conc = n
	}
	registerOther()
	for id, w := range wanted {
		if props[id] != nil {
			props[id].Probes = w
		}
	}
}

func replayDir() string {
	if d := os.Getenv("VERIF_DIR_REPLAYS"); d != "" {
		return d
	}
	return filepath.Join(verifDir(), "replays")
}

func verifDir() string {
	if d := os.Getenv("VERIF_DIR"); d != "" {
		return d
	}
	return "/verif"
}

func envSeed(def uint64) uint64 {
	if s := os.Getenv("VERIF_SEED"); s != "" {
		if v, err := strconv.ParseUint(s, 10, 64); err == nil {
			return v
		}
		if v, err := strconv.ParseInt(s, 10, 64); err == nil {
			return uint64(v)
		}
	}
	return def
}

func main() {
	if len(os.Args) < 2 {
		fmt.Fprintln(os.Stderr, "usage: simcheck check|replay|shard|dethash ...")
		os.Exit(2)
	}
	defer func() {
		if r := recover(); r != nil {
			fmt.Fprintf(os.Stderr, "HARNESS-FAULT: panic: %v\n", r)
			buf := make([]byte, 1<<16)
			fmt.Fprintf(os.Stderr, "%s\n", buf[:runtime.Stack(buf, false)])
			os.Exit(2)
		}
	}()
	switch os.Args[1] {
	case "check":
		os.Exit(cmdCheck(os.Args[2:]))
	case "replay":
		os.Exit(cmdReplay(os.Args[2:]))
	case "shard":
		os.Exit(cmdShard(os.Args[2:]))
	case "dethash":
		os.Exit(cmdDetHash(os.Args[2:]))
	case "minimise":
		os.Exit(cmdMinimise(os.Args[2:]))
	}
	fmt.Fprintln(os.Stderr, "unknown command", os.Args[1])
	os.Exit(2)
}

func loadKnown() *sim.Known {
	k, err := sim.LoadKnown(filepath.Join(verifDir(), "known_findings.txt"))
	if err != nil {
		fmt.Fprintln(os.Stderr, "HARNESS-FAULT: known_findings.txt:", err)
		os.Exit(2)
	}
	return k
}

func cmdShard(args []string) int {
	fs := flag.NewFlagSet("shard", flag.ExitOnError)
	p := fs.String("p", "", "property")
	tier := fs.String("tier", "quick", "")
	seed := fs.Uint64("seed", 1, "")
	runs := fs.Int64("runs", 0, "")
	budget := fs.Float64("budget", 0, "")
	first := fs.Int64("first", 0, "")
	stride := fs.Int64("stride", 1, "")
	workers := fs.Int("workers", 1, "")
	outFile := fs.String("out", "", "write the aggregate here (stdout may be polluted by the code under test)")
	wname := fs.String("world", "", "Y = concurrent hands")
	fs.Parse(args)
	spec := props[*p]
	if spec == nil {
		return 2
	}
	world := spec.World()
	tag := sim.HashString(*p)
	if *wname == "Y" {
		world = conc.World{}
		tag = sim.Mix(tag, sim.HashString("Y"))
	}
	if *wname == "Ycold" {
		world = conc.World{Cold: true}
		tag = sim.Mix(tag, sim.HashString("Ycold"))
	}
	if *wname == "SY" {
		world = seats.World{Gen: true}
		tag = sim.Mix(tag, sim.HashString("SY"))
	}
	b := &sim.Batch{World: world, Opt: sim.Options{Property: *p, Tier: *tier, Known: loadKnown(), Seed: *seed},
		Tag: tag, Runs: *runs, Budget: time.Duration(*budget * float64(time.Second)), Workers: *workers, First: *first, Stride: *stride}
	if *workers == 1 {
		go shardWatchdog(*p, *wname)
	}
	agg := b.Run()
	agg.Seal()
	if *outFile != "" {
		f, err := os.Create(*outFile)
		if err != nil {
			fmt.Fprintln(os.Stderr, "shard:", err)
			return 2
		}
		defer f.Close()
		json.NewEncoder(f).Encode(agg)
		return 0
	}
	json.NewEncoder(os.Stdout).Encode(agg)
	return 0
}

// shardWatchdog ends a single-worker child process whose current run has not
// returned for two minutes while the process kept computing for at least one
// of them (so it is spinning, not starved): a call of the code under test that
// never returns, or the harness itself. It says which run and where, and exits
// 3; the parent turns that into exit 2 (harness trouble, never a VIOLATION)
// unless other processes of the batch recorded violations. Ordinary runs take
// milliseconds, the longest bounded step (a linearizability check) 20 s.
func shardWatchdog(p, wname string) {
	cpu := func() float64 {
		var ru syscall.Rusage
		if syscall.Getrusage(syscall.RUSAGE_SELF, &ru) != nil {
			return 0
		}
		return float64(ru.Utime.Sec+ru.Stime.Sec) + float64(ru.Utime.Usec+ru.Stime.Usec)/1e6
	}
	lastDone, _, _ := sim.Progress()
	since, cpuAt := time.Now(), cpu()
	for {
		time.Sleep(2 * time.Second)
		d, idx, sub := sim.Progress()
		if d != lastDone {
			lastDone, since, cpuAt = d, time.Now(), cpu()
			continue
		}
		if time.Since(since) > 120*time.Second && cpu()-cpuAt > 60 {
			buf := make([]byte, 1<<20)
			n := runtime.Stack(buf, true)
			st := string(buf[:n])
			if len(st) > 6000 {
				st = st[:6000] + "\n..."
			}
			fmt.Fprintf(os.Stderr, "HARNESS-FAULT: child process of %s%s: run %d (sub-seed %d) has not returned for %.0f s (%.0f s on the processor): a call of the code under test that does not return, or the harness spinning. Goroutines:\n%s\n",
				p, wname, idx, sub, time.Since(since).Seconds(), cpu()-cpuAt, st)
			os.Exit(3)
		}
	}
}

func runSharded(p string, tier string, seed uint64, runs int64, budget float64, procs int) (*sim.Agg, error) {
	exe, _ := os.Executable()
	return runShardedExe(exe, "", p, tier, seed, runs, budget, procs)
}

// yBin is the binary built over the generated copy with scheduling points
// ("" when it is not there).
func yBin() string {
	b := os.Getenv("VERIF_YBIN")
	if b == "" {
		return ""
	}
	if _, err := os.Stat(b); err != nil {
		return ""
	}
	return b
}

func exeFor(world string) string {
	if world == "Y" || world == "SY" {
		if b := yBin(); b != "" {
			return b
		}
	}
	exe, _ := os.Executable()
	return exe
}

// runColdY runs cold-start groups of world Y: one group per process, index
// by index, up to n groups (n > 0) or until the budget is used.
func runColdY(exe, p, tier string, seed uint64, n int64, budget float64, procs int) (*sim.Agg, error) {
	total := sim.NewAgg()
	start := time.Now()
	var firstErr error
	next := int64(0)
	for {
		if n > 0 && next >= n {
			break
		}
		if n == 0 && time.Since(start).Seconds() > budget {
			break
		}
		// a wave of procs single-group processes
		lo, hi := next, next+int64(procs)
		if n > 0 && hi > n {
			hi = n
		}
		a, err := runShardedExeRange(exe, "Ycold", p, tier, seed, lo, hi)
		if err != nil && firstErr == nil {
			firstErr = err
		}
		if a != nil {
			total.Merge(a)
		}
		next = hi
	}
	total.WallS = time.Since(start).Seconds()
	return total, firstErr
}

// runShardedExeRange runs the indices lo..hi-1, each in its own process.
func runShardedExeRange(exe, wname, p, tier string, seed uint64, lo, hi int64) (*sim.Agg, error) {
	type res struct {
		agg *sim.Agg
		err error
	}
	ch := make(chan res, hi-lo)
	for k := lo; k < hi; k++ {
		k := k
		go func() {
			ctx, cancel := context.WithTimeout(context.Background(), 15*time.Minute)
			defer cancel()
			tmp, terr := os.CreateTemp("", "simcheck-shard-*.json")
			if terr != nil {
				ch <- res{nil, terr}
				return
			}
			tmp.Close()
			defer os.Remove(tmp.Name())
			cmd := exec.CommandContext(ctx, exe, "shard", "-p", p, "-tier", tier, "-seed", fmt.Sprint(seed), "-runs", fmt.Sprint(k+1),
				"-first", fmt.Sprint(k), "-stride", "1", "-workers", "1", "-out", tmp.Name(), "-world", wname)
			cmd.Env = append(os.Environ(), "GOMAXPROCS=2")
			cmd.Stderr = os.Stderr
			if err := cmd.Run(); err != nil {
				ch <- res{nil, fmt.Errorf("cold group %d: %v", k, err)}
				return
			}
			out, err := os.ReadFile(tmp.Name())
			if err != nil {
				ch <- res{nil, err}
				return
			}
			a := &sim.Agg{}
			if err := json.Unmarshal(out, a); err != nil {
				ch <- res{nil, err}
				return
			}
			a.Unseal()
			ch <- res{a, nil}
		}()
	}
	total := sim.NewAgg()
	var firstErr error
	for k := lo; k < hi; k++ {
		r := <-ch
		if r.err != nil {
			firstErr = r.err
			continue
		}
		total.Merge(r.agg)
	}
	return total, firstErr
}

func runShardedExe(exe, wname, p string, tier string, seed uint64, runs int64, budget float64, procs int) (*sim.Agg, error) {
	type res struct {
		agg *sim.Agg
		err error
	}
	ch := make(chan res, procs)
	for k := 0; k < procs; k++ {
		k := k
		go func() {
			limit := 6 * time.Minute // a quick shard takes seconds; a call of the code under test that never returns must not cost a quarter of an hour
			if budget > 0 {
				limit = time.Duration(budget*float64(time.Second)) + 10*time.Minute
			}
			ctx, cancel := context.WithTimeout(context.Background(), limit)
			defer cancel()
			tmp, terr := os.CreateTemp("", "simcheck-shard-*.json")
			if terr != nil {
				ch <- res{nil, terr}
				return
			}
			tmp.Close()
			defer os.Remove(tmp.Name())
			cmd := exec.CommandContext(ctx, exe, "shard", "-p", p, "-tier", tier, "-seed", fmt.Sprint(seed), "-runs", fmt.Sprint(runs),
				"-budget", fmt.Sprint(budget), "-first", fmt.Sprint(k), "-stride", fmt.Sprint(procs), "-workers", "1", "-out", tmp.Name(), "-world", wname)
			cmd.Env = append(os.Environ(), "GOMAXPROCS=2")
			cmd.Stderr = os.Stderr
			cmd.Stdout = nil // the code under test may print (the regulator does on callback errors)
			if err := cmd.Run(); err != nil {
				ch <- res{nil, fmt.Errorf("shard %d: %v", k, err)}
				return
			}
			out, err := os.ReadFile(tmp.Name())
			if err != nil {
				ch <- res{nil, fmt.Errorf("shard %d: %v", k, err)}
				return
			}
			a := &sim.Agg{}
			if err := json.Unmarshal(out, a); err != nil {
				ch <- res{nil, fmt.Errorf("shard %d: %v", k, err)}
				return
			}
			a.Unseal()
			ch <- res{a, nil}
		}()
	}
	total := sim.NewAgg()
	var firstErr error
	for k := 0; k < procs; k++ {
		r := <-ch
		if r.err != nil {
			firstErr = r.err
			continue
		}
		total.Merge(r.agg)
	}
	return total, firstErr
}

func cmdCheck(args []string) int {
	fs := flag.NewFlagSet("check", flag.ExitOnError)
	p := fs.String("p", "", "property id")
	tier := fs.String("tier", "quick", "quick|thorough")
	runsF := fs.Int64("runs", 0, "override number of runs")
	budgetF := fs.Float64("budget", 0, "override wall-clock budget (s) for thorough")
	fs.Parse(args)
	if t := os.Getenv("VERIF_TIER"); t != "" && *tier == "" {
		*tier = t
	}
	spec := props[*p]
	if spec == nil {
		fmt.Fprintln(os.Stderr, "HARNESS-FAULT: unknown property", *p)
		return 2
	}
	seed := envSeed(20260928)
	known := loadKnown()
	start := time.Now()
	workers := runtime.NumCPU()
	if workers > 16 {
		workers = 16
	}
	var runs int64
	var budget float64
	if *tier == "quick" {
		runs = spec.QuickRuns
	} else {
		budget = 300
		if s := os.Getenv("VERIF_BUDGET_S"); s != "" {
			if v, err := strconv.ParseFloat(s, 64); err == nil {
				budget = v
			}
		}
	}
	if *runsF > 0 {
		runs, budget = *runsF, 0
	}
	if *budgetF > 0 {
		budget, runs = *budgetF, 0
	}
	fmt.Printf("simcheck: property=%s world=%s tier=%s VERIF_SEED=%d runs=%d budget_s=%.0f workers=%d\n", *p, spec.WorldName, *tier, seed, runs, budget, workers)
	var agg *sim.Agg
	opt := sim.Options{Property: *p, Tier: *tier, Known: known, Seed: seed}
	world := spec.World()
	if spec.Shards {
		a, err := runSharded(*p, *tier, seed, runs, budget, workers)
		if err != nil {
			// a process of the batch was lost (killed at its deadline, crashed). If
			// the others recorded violations these are still reported - each is
			// reproduced in a fresh process before it is printed, so the lost
			// process cannot make the report wrong, only the coverage smaller.
			unknown := false
			if a != nil {
				for _, v := range a.Viol {
					if v.Property == *p && known.Match(v.Property, v.Sig) == nil {
						unknown = true
					}
				}
			}
			if !unknown {
				fmt.Fprintln(os.Stderr, "HARNESS-FAULT:", err)
				return 2
			}
			fmt.Printf("NOTE: %v; the violations recorded by the other processes of the batch are reported\n", err)
		}
		agg = a
	} else {
		b := &sim.Batch{World: world, Opt: opt, Tag: sim.HashString(*p), Runs: runs, Budget: time.Duration(budget * float64(time.Second)), Workers: workers}
		agg = b.Run()
	}
	if len(agg.Faults) > 0 {
		fmt.Fprintln(os.Stderr, "HARNESS-FAULT:", strings.Join(agg.Faults, "; "))
		return 2
	}
	// world Y: the same hands played by concurrent goroutines
	var yinfo map[string]interface{}
	if spec.Conc > 0 {
		yinfo = map[string]interface{}{"attached": true}
		if yb := yBin(); yb == "" {
			why := os.Getenv("VERIF_YBIN_WHY")
			if why == "" {
				why = "the binary over the generated copy is not there (VERIF_YBIN)"
			}
			yinfo["run"] = false
			yinfo["reason"] = why
			fmt.Printf("NOTE: concurrent-hands part (world Y) not run: %s\n", why)
		} else {
			yruns, ybudget := spec.Conc, 0.0
			if runs == 0 {
				yruns, ybudget = 0, budget/4
			} else if *runsF > 0 {
				yruns = *runsF / 10
			}
			y0 := time.Now()
			ya, err := runShardedExe(yb, "Y", *p, *tier, seed, yruns, ybudget, workers)
			if err == nil {
				// cold-start groups: one per process, concurrent before alone
				cn, cb := int64(96), 0.0
				if runs == 0 {
					cn, cb = 0, budget/16
				}
				ca, cerr := runColdY(yb, *p, *tier, seed, cn, cb, workers)
				if cerr != nil {
					err = cerr
				} else {
					ya.Merge(ca)
				}
			}
			ya.WallS = time.Since(y0).Seconds()
			if err != nil {
				fmt.Fprintln(os.Stderr, "HARNESS-FAULT (world Y):", err)
				return 2
			}
			if len(ya.Faults) > 0 {
				fmt.Fprintln(os.Stderr, "HARNESS-FAULT (world Y):", strings.Join(ya.Faults, "; "))
				return 2
			}
			// determinism sample: the same groups in two further processes
			var dh [2]string
			for t := 0; t < 2; t++ {
				cmd := exec.Command(yb, "dethash", "-p", *p, "-world", "Y", "-runs", "4", "-tier", *tier)
				cmd.Env = append(os.Environ(), fmt.Sprintf("VERIF_SEED=%d", seed), fmt.Sprintf("GOMAXPROCS=%d", 1+3*t))
				cmd.Stderr = os.Stderr
				out, err := cmd.Output()
				if err != nil {
					fmt.Fprintln(os.Stderr, "HARNESS-FAULT (world Y): determinism sample:", err)
					return 2
				}
				dh[t] = lastLine(string(out))
			}
			if dh[0] != dh[1] || !strings.Contains(dh[0], "hash=") {
				fmt.Fprintf(os.Stderr, "HARNESS-FAULT (world Y): determinism sample mismatch: %q vs %q\n", dh[0], dh[1])
				return 2
			}
			yinfo["determinism_sample_groups"] = 4
			yinfo["run"] = true
			yinfo["wall_s"] = ya.WallS
			yinfo["groups"] = ya.Counters["probe.conc.groups"]
			yinfo["hands"] = ya.Counters["probe.conc.hands"]
			yinfo["distinct_function_pairs_interleaved"] = len(ya.States)
			yinfo["measure"] = "a pair = (function a hand was switched away from, function the hand resumed in its place is parked in), over all switches inside engine calls"
			yinfo["cold_start_groups"] = ya.Counters["probe.conc.cold-start-groups"]
			yinfo["switches_inside_engine_calls"] = ya.Counters["fault.goroutine-switch-inside-engine-call"]
			yinfo["scheduling_points_passed"] = ya.Counters["probe.conc.scheduling-points"]
			yinfo["groups_with_switches"] = ya.Nontrivial
			yinfo["rule"] = "one group = 2 or 3 complete world-E hands (own configuration, deck, faults, oracles) run by concurrent goroutines, one at a time, switching at PRNG-chosen statements inside engine calls; every hand is compared with the same hand run alone"
			fmt.Printf("simcheck: world Y: groups=%d hands=%d switches=%d scheduling-points=%d wall=%.1fs\n", ya.Counters["probe.conc.groups"], ya.Counters["probe.conc.hands"], ya.Counters["fault.goroutine-switch-inside-engine-call"], ya.Counters["probe.conc.scheduling-points"], ya.WallS)
			// fold into the aggregate: violations, fault counters; the member
			// hands' own counters stay out of the world-E numbers
			for k, v := range ya.Viol {
				agg.Viol[k] = v
			}
			for _, k := range []string{"fault.goroutine-switch-inside-engine-call", "fault.switch-because-blocked-on-lock", "probe.conc.groups", "probe.conc.hands", "probe.conc.deadlock", "probe.conc.skipped-after-deadlock", "probe.conc.policy-focus-function", "probe.conc.policy-quantum", "probe.conc.cold-start-groups"} {
				if v := ya.Counters[k]; v > 0 {
					agg.Counters[k] += v
				}
			}
		}
	}
	if spec.GenS > 0 {
		yinfo = map[string]interface{}{"attached": true}
		if yb := yBin(); yb == "" {
			why := os.Getenv("VERIF_YBIN_WHY")
			if why == "" {
				why = "the binary over the generated copy is not there (VERIF_YBIN)"
			}
			yinfo["run"] = false
			yinfo["reason"] = why
			fmt.Printf("NOTE: generated-scheduling-points part (world S over the generated copy) not run: %s\n", why)
		} else {
			yruns, ybudget := spec.GenS, 0.0
			if runs == 0 {
				yruns, ybudget = 0, budget/4
			} else if *runsF > 0 {
				yruns = *runsF / 10
			}
			y0 := time.Now()
			ya, err := runShardedExe(yb, "SY", *p, *tier, seed, yruns, ybudget, workers)
			if err != nil {
				fmt.Fprintln(os.Stderr, "HARNESS-FAULT (world S, generated copy):", err)
				return 2
			}
			if len(ya.Faults) > 0 {
				fmt.Fprintln(os.Stderr, "HARNESS-FAULT (world S, generated copy):", strings.Join(ya.Faults, "; "))
				return 2
			}
			var dh [2]string
			for t := 0; t < 2; t++ {
				cmd := exec.Command(yb, "dethash", "-p", *p, "-world", "SY", "-runs", "40", "-tier", *tier)
				cmd.Env = append(os.Environ(), fmt.Sprintf("VERIF_SEED=%d", seed), fmt.Sprintf("GOMAXPROCS=%d", 1+3*t))
				cmd.Stderr = os.Stderr
				out, err := cmd.Output()
				if err != nil {
					fmt.Fprintln(os.Stderr, "HARNESS-FAULT (world S, generated copy): determinism sample:", err)
					return 2
				}
				dh[t] = lastLine(string(out))
			}
			if dh[0] != dh[1] || !strings.Contains(dh[0], "hash=") {
				fmt.Fprintf(os.Stderr, "HARNESS-FAULT (world S, generated copy): determinism sample mismatch: %q vs %q\n", dh[0], dh[1])
				return 2
			}
			yinfo["run"] = true
			yinfo["runs"] = ya.Runs
			yinfo["scheduling_steps"] = ya.Steps
			yinfo["bursts"] = ya.Counters["probe.concurrent-burst"]
			yinfo["distinct_scheduler_states"] = len(ya.States)
			yinfo["determinism_sample_runs"] = 40
			yinfo["wall_s"] = time.Since(y0).Seconds()
			yinfo["rule"] = "world S in concurrent mode over a generated copy of the working tree: a scheduling point before every statement of seat_manager (a goroutine parks there with probability 1/2 .. 1/64 from its own recorded stream), lock acquisitions as TryLock loops that yield to the scheduler; read-only calls run beside the seat operations and what they return must match a sequential order; every burst, also of a single call, is compared with the sequential orders on a restored replica; distinct = (label of the point where the released goroutine parked next, parked, unfinished)"
			fmt.Printf("simcheck: world S over the generated copy: runs=%d scheduling-steps=%d bursts=%d states=%d wall=%.1fs\n", ya.Runs, ya.Steps, ya.Counters["probe.concurrent-burst"], len(ya.States), time.Since(y0).Seconds())
			for k, v := range ya.Viol {
				if _, dup := agg.Viol[k]; !dup {
					agg.Viol[k] = v
				}
			}
			agg.Counters["probe.generated-copy-runs"] += ya.Runs
			agg.Inconclusive += ya.Inconclusive
		}
	}
	concInfo = yinfo
	// determinism sample: re-run a few sub-seeds and compare event logs
	detOK, detN := determinismSample(world, opt, *p, 6)
	if !detOK {
		fmt.Fprintln(os.Stderr, "HARNESS-FAULT: determinism sample mismatch (same sub-seed, different event log)")
		return 2
	}
	// classify violations
	keys := make([]string, 0, len(agg.Viol))
	for k := range agg.Viol {
		keys = append(keys, k)
	}
	// world-E cases first (their replay files are explicit operation lists),
	// then the concurrent-hands ones
	isY := func(k string) bool { return strings.HasPrefix(agg.Viol[k].Sig, "concurrent-hands: ") }
	sort.Slice(keys, func(i, j int) bool {
		if isY(keys[i]) != isY(keys[j]) {
			return !isY(keys[i])
		}
		return agg.Viol[keys[i]].FirstRun < agg.Viol[keys[j]].FirstRun
	})
	var knownHit []string
	var fresh []*sim.VioRec
	for _, k := range keys {
		v := agg.Viol[k]
		if v.Property != *p {
			continue
		}
		if e := known.Match(v.Property, v.Sig); e != nil {
			fmt.Printf("KNOWN-FINDING: property=%s %s [%s] (%d of %d runs; e.g. %s)\n", v.Property, e.What, v.Sig, v.Count, agg.Runs, v.Detail)
			knownHit = append(knownHit, v.Sig)
			continue
		}
		fresh = append(fresh, v)
	}
	exit := 0
	replayPath := ""
	nviol := 0
	for fi := 0; fi < len(fresh) && exit == 0; fi++ {
		v := fresh[fi]
		nviol = len(fresh)
		if fi == 0 {
			fmt.Printf("violation candidates: %d signature(s); minimising the first: %s :: %s\n", len(fresh), v.Sig, v.Detail)
			for _, o := range fresh[1:] {
				fmt.Printf("  also: %s (%d runs) :: %s\n", o.Sig, o.Count, o.Detail)
			}
		} else {
			fmt.Printf("trying the next signature: %s :: %s\n", v.Sig, v.Detail)
		}
		// Minimisation and the reproduction proof run in fresh child
		// processes: a failing case must reproduce on its own, from a clean
		// process, and a case that only failed because of interference
		// between parallel runs (possible when the code under test has grown
		// process-global state) is skipped in favour of the next recorded one.
		cands := append([]*sim.Case{v.Case}, v.More...)
		exe, _ := os.Executable()
		if v.Case != nil {
			exe = exeFor(v.Case.World)
		}
		var min *sim.Case
		var got *sim.Violation
		os.MkdirAll(replayDir(), 0o755)
		for ci, cand := range cands {
			if cand == nil {
				continue
			}
			in := filepath.Join(replayDir(), fmt.Sprintf(".cand-%s-%d-%d.json", *p, cand.SubSeed, ci))
			out := filepath.Join(replayDir(), fmt.Sprintf("%s-%d.json", *p, cand.SubSeed))
			cand.Property = *p
			cand.Seed = seed
			cand.Expect = &sim.Expect{Property: v.Property, Signature: v.Sig}
			if err := writeCase(in, cand); err != nil {
				fmt.Fprintln(os.Stderr, "HARNESS-FAULT:", err)
				return 2
			}
			// does the recorded case reproduce at all, on its own, in a
			// fresh process? (cheap; a case that does not is skipped at once)
			raw := filepath.Join(replayDir(), fmt.Sprintf(".raw-%s-%d-%d.json", *p, cand.SubSeed, ci))
			writeCase(raw, cand)
			rctx, rcancel := context.WithTimeout(context.Background(), 90*time.Second)
			ro0, _ := exec.CommandContext(rctx, exe, "replay", raw).CombinedOutput()
			rcancel()
			if !strings.Contains(string(ro0), "REPRODUCED") {
				os.Remove(raw)
				os.Remove(in)
				fmt.Printf("  candidate %d (sub-seed %d) does not reproduce on its own\n", ci, cand.SubSeed)
				continue
			}
			ctx, cancel := context.WithTimeout(context.Background(), 150*time.Second)
			mo, merr := exec.CommandContext(ctx, exe, "minimise", in, out).CombinedOutput()
			cancel()
			os.Remove(in)
			if merr != nil {
				// minimisation failed or ran out of time: the recorded case
				// itself is the replay file
				fmt.Printf("  candidate %d (sub-seed %d): not minimised (%s); the recorded case is kept\n", ci, cand.SubSeed, strings.TrimSpace(lastLine(string(mo))))
				for _, l := range strings.Split(string(ro0), "\n") {
					if strings.HasPrefix(l, "violation: property="+v.Property) && strings.Contains(l, fmt.Sprintf("signature=%q", v.Sig)) {
						fmt.Sscanf(l[strings.Index(l, "step=")+5:], "%d", &cand.Expect.Step)
					}
				}
				cand.Expect.Detail = v.Detail
				cand.Note = "not minimised"
				writeCase(out, cand)
			}
			os.Remove(raw)
			// the replay must reproduce in yet another fresh process
			ro, rerr := exec.Command(exe, "replay", out).CombinedOutput()
			if rerr == nil || !strings.Contains(string(ro), "REPRODUCED") {
				fmt.Printf("  candidate %d: minimised replay does not reproduce in a fresh process\n", ci)
				os.Remove(out)
				continue
			}
			b, _ := os.ReadFile(out)
			var mc sim.Case
			if json.Unmarshal(b, &mc) != nil || mc.Expect == nil {
				continue
			}
			min = &mc
			got = &sim.Violation{Property: mc.Expect.Property, Sig: mc.Expect.Signature, Detail: mc.Expect.Detail, Step: mc.Expect.Step}
			replayPath = out
			break
		}
		if got == nil {
			fmt.Fprintf(os.Stderr, "violation %q (first seen in run %d) does not reproduce from a clean process in any of %d recorded cases\n", v.Sig, v.FirstRun, len(cands))
			if fi == len(fresh)-1 {
				fmt.Fprintln(os.Stderr, "HARNESS-FAULT: no recorded violation reproduces from a clean process")
				dump := filepath.Join(replayDir(), fmt.Sprintf("%s-%d-unreproduced.json", *p, v.Case.SubSeed))
				writeCase(dump, v.Case)
				return 2
			}
			continue
		}
		fmt.Printf("  %s\n  steps: ", got.Detail)
		for _, s := range min.Steps {
			fmt.Printf("%s ", s)
		}
		fmt.Println()
		fmt.Printf("VIOLATION property=%s replay=%s\n", *p, replayPath)
		exit = 1
	}
	wall := time.Since(start).Seconds()
	if err := writeEvidence(*p, spec, *tier, seed, agg, wall, knownHit, nviol, detN, world); err != nil {
		fmt.Fprintln(os.Stderr, "HARNESS-FAULT: evidence:", err)
		return 2
	}
	fmt.Printf("simcheck: %s %s: runs=%d steps=%d nontrivial_runs=%d distinct_transitions=%d states=%d wall=%.1fs exit=%d\n", *p, *tier, agg.Runs, agg.Steps, agg.Nontrivial, len(agg.NTTrans), len(agg.States), wall, exit)
	return exit
}

func determinismSample(w sim.World, opt sim.Options, p string, n int) (bool, int) {
	o := opt
	o.KeepLog = true
	for i := 0; i < n; i++ {
		ss := sim.Mix(opt.Seed, sim.HashString(p), uint64(i))
		a := w.Generate(ss, o)
		b := w.Generate(ss, o)
		if len(a.Log) != len(b.Log) || len(a.Case.Steps) != len(b.Case.Steps) {
			return false, i
		}
		for k := range a.Log {
			if a.Log[k] != b.Log[k] {
				return false, i
			}
		}
		for k := range a.Case.Steps {
			if a.Case.Steps[k].String() != b.Case.Steps[k].String() {
				return false, i
			}
		}
	}
	return true, n
}

func writeCase(path string, c *sim.Case) error {
	os.MkdirAll(filepath.Dir(path), 0o755)
	b, err := json.MarshalIndent(c, "", " ")
	if err != nil {
		return err
	}
	return os.WriteFile(path, b, 0o644)
}

func cmdReplay(args []string) int {
	if len(args) < 1 {
		fmt.Fprintln(os.Stderr, "usage: simcheck replay <file>")
		return 2
	}
	b, err := os.ReadFile(args[0])
	if err != nil {
		fmt.Fprintln(os.Stderr, "HARNESS-FAULT:", err)
		return 2
	}
	var c sim.Case
	if err := json.Unmarshal(b, &c); err != nil {
		fmt.Fprintln(os.Stderr, "HARNESS-FAULT:", err)
		return 2
	}
	if (c.World == "Y" || c.World == "SY") && !conc.Available() {
		// needs the binary built over the copy with scheduling points
		yb := yBin()
		if yb == "" {
			fmt.Fprintln(os.Stderr, "HARNESS-FAULT: a world-Y replay file needs the binary built over the generated copy (./verif.sh replay builds it)")
			return 2
		}
		cmd := exec.Command(yb, append([]string{"replay"}, args...)...)
		cmd.Stdout, cmd.Stderr = os.Stdout, os.Stderr
		if err := cmd.Run(); err != nil {
			if ee, ok := err.(*exec.ExitError); ok {
				return ee.ExitCode()
			}
			return 2
		}
		return 0
	}
	w := worldOf(c.World)
	if w == nil {
		fmt.Fprintln(os.Stderr, "HARNESS-FAULT: unknown world", c.World)
		return 2
	}
	prop := c.Property
	if c.Expect != nil {
		prop = c.Expect.Property
	}
	r := w.Replay(&c, sim.Options{Property: prop, Tier: "thorough", Known: loadKnown(), Seed: c.Seed})
	if r.Fault != "" {
		fmt.Fprintln(os.Stderr, "HARNESS-FAULT:", r.Fault)
		return 2
	}
	shown := c.Steps
	if r.Case != nil && len(r.Case.Steps) >= len(c.Steps) {
		shown = r.Case.Steps // includes the steps of the deterministic closer
	}
	for i, s := range shown {
		tag := ""
		if i >= len(c.Steps) {
			tag = "   (closer)"
		}
		fmt.Printf("  step %d: %s%s\n", i, s, tag)
	}
	for _, v := range r.Violations {
		fmt.Printf("violation: property=%s step=%d signature=%q\n    %s\n", v.Property, v.Step, v.Sig, v.Detail)
	}
	if c.Expect != nil {
		for _, v := range r.Violations {
			if v.Property == c.Expect.Property && v.Sig == c.Expect.Signature {
				same := v.Step == c.Expect.Step && v.Detail == c.Expect.Detail
				if !same {
					fmt.Printf("  (recorded: step %d %q; now: step %d %q)\n", c.Expect.Step, c.Expect.Detail, v.Step, v.Detail)
				}
				fmt.Printf("REPRODUCED property=%s signature=%q step=%d identical=%v\n", v.Property, v.Sig, v.Step, same)
				return 1
			}
		}
		fmt.Println("NOT-REPRODUCED: the expected violation did not occur")
		return 0
	}
	if len(r.Violations) > 0 {
		return 1
	}
	fmt.Println("no violation")
	return 0
}

func cmdDetHash(args []string) int {
	fs := flag.NewFlagSet("dethash", flag.ExitOnError)
	p := fs.String("p", "", "property")
	runs := fs.Int64("runs", 200, "")
	workers := fs.Int("workers", 1, "")
	tier := fs.String("tier", "quick", "")
	wname := fs.String("world", "", "Y = concurrent hands")
	fs.Parse(args)
	spec := props[*p]
	if spec == nil {
		return 2
	}
	seed := envSeed(20260928)
	w := spec.World()
	if *wname == "Y" {
		w = conc.World{}
	}
	if *wname == "Ycold" {
		w = conc.World{Cold: true}
	}
	if *wname == "SY" {
		w = seats.World{Gen: true}
	}
	opt := sim.Options{Property: *p, Tier: *tier, Known: loadKnown(), Seed: seed, KeepLog: true}
	hashes := make([]uint64, *runs)
	ch := make(chan int64, *runs)
	for i := int64(0); i < *runs; i++ {
		ch <- i
	}
	close(ch)
	done := make(chan bool)
	for k := 0; k < *workers; k++ {
		go func() {
			for i := range ch {
				r := w.Generate(sim.Mix(seed, sim.HashString(*p), uint64(i)), opt)
				h := uint64(len(r.Log))
				for _, x := range r.Log {
					h = sim.Mix(h, x)
				}
				if r.Case != nil {
					for _, s := range r.Case.Steps {
						h = sim.Mix(h, sim.HashString(s.String()))
					}
				}
				for _, v := range r.Violations {
					h = sim.Mix(h, sim.HashString(v.Sig))
				}
				if *wname == "Y" || *wname == "Ycold" {
					if os.Getenv("VERIF_YDEBUG") != "" {
						fmt.Fprintf(os.Stderr, "group %d: points=%d accepted=%d steps=%d vio=%d fault=%q\n", i, r.Counters["probe.conc.scheduling-points"], r.Counters["op.action-offered.accepted"], r.Steps, len(r.Violations), r.Fault)
						if r.Case != nil {
							fmt.Fprintf(os.Stderr, "  cfg=%s first=%v\n", r.Case.Config, r.Case.Steps[:min(4, len(r.Case.Steps))])
						}
					}
					h = sim.Mix(h, uint64(r.Counters["probe.conc.scheduling-points"]), uint64(r.Counters["op.action-offered.accepted"]))
					if r.Fault != "" {
						h = sim.Mix(h, sim.HashString(r.Fault))
					}
				}
				hashes[i] = h
			}
			done <- true
		}()
	}
	for k := 0; k < *workers; k++ {
		<-done
	}
	h := uint64(0)
	for _, x := range hashes {
		h = sim.Mix(h, x)
	}
	fmt.Printf("dethash property=%s runs=%d seed=%d hash=%016x\n", *p, *runs, seed, h)
	return 0
}

func lastLine(s string) string {
	s = strings.TrimSpace(s)
	if i := strings.LastIndex(s, "\n"); i >= 0 {
		return s[i+1:]
	}
	return s
}

func worldOf(name string) sim.World {
	if name == "Y" {
		return conc.World{}
	}
	if name == "SY" {
		return seats.World{Gen: true}
	}
	if name == "P" || name == "E" {
		return engine.Mixed{}
	}
	for _, s := range props {
		if s.WorldName == name {
			return s.World()
		}
	}
	return nil
}

// cmdMinimise: simcheck minimise <in> <out>. Shrinks the case in <in>
// (which names the violation to preserve in its "expect" block) in this
// fresh process and writes the minimised replay file. Exit 0 = written,
// 3 = the case does not reproduce here.
func cmdMinimise(args []string) int {
	if len(args) < 2 {
		return 2
	}
	b, err := os.ReadFile(args[0])
	if err != nil {
		fmt.Println("read:", err)
		return 2
	}
	var c sim.Case
	if err := json.Unmarshal(b, &c); err != nil || c.Expect == nil {
		fmt.Println("bad case file")
		return 2
	}
	w := worldOf(c.World)
	if w == nil {
		fmt.Println("unknown world", c.World)
		return 2
	}
	opt := sim.Options{Property: c.Expect.Property, Tier: "thorough", Known: loadKnown(), Seed: c.Seed}
	orig := len(c.Steps)
	var yFirst *sim.Violation
	if c.World == "Y" {
		// hands that block each other leave their goroutines (and the locks
		// they hold) behind: such a case can be executed once per process,
		// so it is kept as recorded
		r0 := w.Replay(&c, opt)
		for i := range r0.Violations {
			if v := r0.Violations[i]; v.Property == c.Expect.Property && v.Sig == c.Expect.Signature {
				yFirst = &r0.Violations[i]
			}
		}
		if conc.Poisoned() {
			for _, v := range r0.Violations {
				if v.Property == c.Expect.Property && v.Sig == c.Expect.Signature {
					c.Expect = &sim.Expect{Property: v.Property, Signature: v.Sig, Detail: v.Detail, Step: v.Step}
					c.Note = fmt.Sprintf("not minimised (the hands block each other; one execution per process); original sub-seed %d of VERIF_SEED=%d", c.SubSeed, c.Seed)
					if r0.Case != nil && r0.Case.Note != "" {
						c.Note += "; " + r0.Case.Note
					}
					if err := writeCase(args[1], &c); err != nil {
						fmt.Println("write:", err)
						return 2
					}
					fmt.Println("kept as recorded:", orig, "steps")
					return 0
				}
			}
			fmt.Println("the violation does not occur when the case is replayed in a clean process")
			return 3
		}
	}
	min, tries := sim.Minimise(w, &c, c.Expect.Property, c.Expect.Signature, opt, 60*time.Second)
	rr := w.Replay(min, opt)
	for _, v := range rr.Violations {
		if v.Property == c.Expect.Property && v.Sig == c.Expect.Signature {
			min.Property = c.Expect.Property
			min.Seed = c.Seed
			min.Expect = &sim.Expect{Property: v.Property, Signature: v.Sig, Detail: v.Detail, Step: v.Step}
			min.Note = fmt.Sprintf("minimised from %d to %d steps in %d replays; original sub-seed %d of VERIF_SEED=%d", orig, len(min.Steps), tries, c.SubSeed, c.Seed)
			if err := writeCase(args[1], min); err != nil {
				fmt.Println("write:", err)
				return 2
			}
			fmt.Println("minimised", orig, "->", len(min.Steps))
			return 0
		}
	}
	if c.World == "Y" && yFirst != nil {
		// the first execution in this process showed it, later ones do not:
		// the case depends on the process being fresh. Kept as recorded.
		c.Expect = &sim.Expect{Property: yFirst.Property, Signature: yFirst.Sig, Detail: yFirst.Detail, Step: yFirst.Step}
		c.Note = fmt.Sprintf("not minimised (reproduces only as the first thing a process does); original sub-seed %d of VERIF_SEED=%d", c.SubSeed, c.Seed)
		if err := writeCase(args[1], &c); err != nil {
			fmt.Println("write:", err)
			return 2
		}
		fmt.Println("kept as recorded:", orig, "steps")
		return 0
	}
	fmt.Println("the violation does not occur when the case is replayed in a clean process")
	return 3
}

func min(a, b int) int {
	if a < b {
		return a
	}
	return b
}
