package main

import (
	"encoding/json"
	"os"
	"os/exec"
	"path/filepath"
	"runtime"
	"strings"

	"verif/harness/sim"
)

func repoTree() string {
	repo := os.Getenv("VERIF_REPO")
	if repo == "" {
		repo = "/repo"
	}
	out, err := exec.Command("git", "-C", repo, "rev-parse", "HEAD").Output()
	if err != nil {
		return "unknown"
	}
	head := strings.TrimSpace(string(out))
	st, _ := exec.Command("git", "-C", repo, "status", "--porcelain", "--", "*.go").Output()
	if len(strings.TrimSpace(string(st))) > 0 {
		head += "+dirty"
	}
	return head
}

func writeEvidence(p string, spec *propSpec, tier string, seed uint64, a *sim.Agg, wall float64, knownHit []string, nviol int, detN int, w sim.World) error {
	faults := map[string]int64{}
	probes := map[string]int64{}
	ops := map[string]int64{}
	for _, k := range sim.SortedKeys(a.Counters) {
		v := a.Counters[k]
		switch {
		case strings.HasPrefix(k, "fault."):
			faults[k[6:]] = v
		case strings.HasPrefix(k, "probe."):
			probes[k[6:]] = v
		case strings.HasPrefix(k, "op."):
			ops[k[3:]] = v
		default:
			probes[k] = v
		}
	}
	gaps := []string{}
	if knownHit == nil {
		knownHit = []string{}
	}
	for _, want := range spec.wantProbes() {
		if probes[want] == 0 {
			gaps = append(gaps, want)
		}
	}
	samples := []interface{}{}
	for _, c := range a.Samples {
		steps := []string{}
		for i, s := range c.Steps {
			if i >= 60 {
				steps = append(steps, "...")
				break
			}
			steps = append(steps, s.String())
		}
		samples = append(samples, map[string]interface{}{"subseed": c.SubSeed, "config": json.RawMessage(c.Config), "steps": steps})
	}
	if len(samples) == 0 {
		samples = append(samples, "no non-trivial run in this batch")
	}
	perHour := 0.0
	if wall > 0 {
		perHour = float64(a.Runs) / wall * 3600
	}
	ev := map[string]interface{}{
		"property_id": p,
		"tier":        tier,
		"seed":        int64(seed & 0x7fffffffffffffff),
		"level":       "exploration",
		"wall_s":      wall,
		"violations":  nviol,
		"assumptions": spec.Assume,
		"coverage": map[string]interface{}{
			"evaluations":              a.Runs,
			"distinct_nontrivial":      len(a.NTTrans),
			"rule":                     spec.Rule,
			"samples":                  samples,
			"technique":                "deterministic simulation with fault injection (seeded search over schedules and fault sequences; not exhaustive)",
			"world":                    spec.WorldName,
			"nontrivial_runs":          a.Nontrivial,
			"delivered_steps":          a.Steps,
			"simulated_time_s":         float64(a.SimTime) / 1e6,
			"runs_per_hour":            perHour,
			"seeds_per_hour":           perHour,
			"distinct_abstract_states": len(a.States),
			"distinct_transitions_all": len(a.Trans),
			"faults_fired":             faults,
			"reach_probes":             probes,
			"reach_gaps":               gaps,
			"operation_outcomes":       ops,
			"known_findings_hit":       knownHit,
			"runs_cut_short_by_taint":  a.Tainted,
			"inconclusive":             a.Inconclusive,
			"determinism_sample_runs":  detN,
			"components":               w.Components(),
			"go_version":               runtime.Version(),
			"repo_head":                repoTree(),
			"workers":                  runtime.NumCPU(),
			"exhaustive":               false,
		},
	}
	if concInfo != nil {
		key := "concurrent_hands"
		if spec.GenS > 0 {
			key = "generated_scheduling_points"
		}
		ev["coverage"].(map[string]interface{})[key] = concInfo
	}
	dir := filepath.Join(verifDir(), "evidence")
	if d := os.Getenv("VERIF_EVIDENCE_DIR"); d != "" {
		dir = d // scratch runs against mutated copies must not touch the real evidence
	}
	os.MkdirAll(dir, 0o755)
	b, err := json.MarshalIndent(ev, "", " ")
	if err != nil {
		return err
	}
	return os.WriteFile(filepath.Join(dir, p+".json"), b, 0o644)
}

func (s *propSpec) wantProbes() []string { return s.Probes }
