package engine

import (
	"encoding/json"
	"fmt"

	"verif/harness/sim"

	"github.com/weedbox/pokerface"
)

// faultCfg is the per-run fault mix (swarm style: each run enables its own
// subset).
type faultCfg struct {
	None        bool
	Drop        float64
	Dup         float64
	Slow        float64
	Restart     float64
	Hop         float64
	AcceptStale bool
	Byz         []bool // per client; index n is the driver
	Impatient   []bool
	ByzRate     int64 // mean virtual us between byzantine messages
	FaultSteps  int
	Stall       float64
	Neighbour   bool // other hands are started in the same process while this one runs
	Query       bool // read-only questions are put to the live game object between operations
	Staller     bool // every honest client prefers the action that moves no chips (bet 0, check, pass)
}

func drawFaults(r *sim.RNG, n int) *faultCfg {
	f := &faultCfg{Byz: make([]bool, n+1), Impatient: make([]bool, n+1)}
	f.Staller = r.Chance(0.08)
	if r.Chance(0.2) {
		f.None = true
		f.FaultSteps = 0
		return f
	}
	pick := func(p float64, vals ...float64) float64 {
		if !r.Chance(p) {
			return 0
		}
		return vals[r.Intn(len(vals))]
	}
	f.Drop = pick(0.5, 0.02, 0.08, 0.2)
	f.Dup = pick(0.5, 0.05, 0.15, 0.4)
	f.Slow = pick(0.5, 0.05, 0.2)
	f.Restart = pick(0.7, 0.1, 0.33, 0.7, 1.0)
	f.Hop = pick(0.6, 0.1, 0.33, 0.7)
	f.Stall = pick(0.3, 0.02, 0.05)
	f.AcceptStale = r.Chance(0.5)
	f.Neighbour = r.Chance(0.3)
	f.Query = r.Chance(0.3)
	if r.Chance(0.6) {
		k := 1 + r.Intn(2)
		for j := 0; j < k; j++ {
			f.Byz[r.Intn(n+1)] = true
		}
	}
	for j := 0; j <= n; j++ {
		f.Impatient[j] = r.Chance(0.3)
	}
	f.ByzRate = []int64{2000, 8000, 30000}[r.Intn(3)]
	f.FaultSteps = 10 + r.Intn(140)
	return f
}

type view struct {
	ver     int
	ev      string
	cur     int
	allowed []string
	gs      *pokerface.GameState // immutable snapshot (the server's clone)
}

type msg struct {
	actor string
	op    string
	args  []int64
	ver   int
	fault string
}

type client struct {
	id      int // seat, or n for the driver
	v       *view
	sentVer int
	sentAt  int64
	last    *msg
	stalled bool
	aggr    int // aggressive actions taken in the calm phase
	tries   int // consecutive attempts at the same turn (a refused choice must not be repeated for ever)
	turnKey string
}

type hand struct {
	r            *run
	rng          *sim.RNG
	loop         sim.Loop
	fc           *faultCfg
	cl           []*client
	faultsOn     bool
	calmAt       int
	phaseChg     bool
	cap          int
	extra        int   // deliveries after close
	lastDelivery int64 // virtual time of the last delivery
	stuck        bool  // nothing has been delivered for a long while: nobody finds anything to do
}

const (
	usLatency   = 500
	usJitter    = 1500
	usSlow      = 40000
	usHeartbeat = 25000
	usRTO       = 20000
)

func (h *hand) n() int { return h.r.n }

func (h *hand) closed() bool { return h.r.srv.state().Status.CurrentEvent == "GameClosed" }

// transport: the only way parties reach each other
func (h *hand) send(f func(dup bool)) {
	fc := h.fc
	if h.faultsOn && h.rng.Chance(fc.Drop) {
		h.r.res.Count("fault.drop", 1)
		return
	}
	d := int64(usLatency) + h.rng.Int63n(usJitter)
	if h.faultsOn && h.rng.Chance(fc.Slow) {
		d += h.rng.Int63n(usSlow)
		h.r.res.Count("fault.delay", 1)
	}
	h.loop.After(d, func() { f(false) })
	if h.faultsOn && h.rng.Chance(fc.Dup) {
		h.r.res.Count("fault.duplicate-sent", 1)
		h.loop.After(d+h.rng.Int63n(usSlow), func() { f(true) })
	}
}

func (h *hand) currentView() *view {
	gs := h.r.srv.state()
	v := &view{ver: h.r.srv.version, ev: gs.Status.CurrentEvent, cur: gs.Status.CurrentPlayer, gs: gs}
	if v.cur >= 0 && v.cur < len(gs.Players) {
		v.allowed = gs.Players[v.cur].AllowedActions
	}
	return v
}

func (h *hand) broadcast() {
	v := h.currentView()
	for _, c := range h.cl {
		c := c
		h.send(func(dup bool) { h.onView(c, v) })
	}
}

func (h *hand) onView(c *client, v *view) {
	if h.r.dead {
		return
	}
	if c.stalled {
		return
	}
	if c.v != nil && v.ver < c.v.ver {
		if !(h.faultsOn && h.fc.AcceptStale) {
			return
		}
		h.r.res.Count("fault.stale-view-accepted", 1)
	}
	c.v = v
	h.maybeAct(c)
}

var driverFor = map[string]string{"ReadyRequested": "ready", "AnteRequested": "ante", "BlindsRequested": "blinds", "RoundClosed": "next"}

func (h *hand) maybeAct(c *client) {
	v := c.v
	if v == nil || v.ev == "GameClosed" {
		return
	}
	if h.faultsOn && h.fc.Byz[c.id] {
		return // byzantine clients are timer driven
	}
	var m *msg
	if c.id == h.n() {
		op, ok := driverFor[v.ev]
		if !ok {
			return
		}
		m = &msg{actor: "driver", op: op, ver: v.ver}
	} else {
		if v.ev != "RoundStarted" || v.cur != c.id || len(v.allowed) == 0 {
			return
		}
		m = h.chooseAction(c, v)
	}
	if c.sentVer == v.ver && c.last != nil {
		// already answered this version: retransmit only after a timeout
		rto := int64(usRTO)
		if h.faultsOn && h.fc.Impatient[c.id] {
			rto = usRTO / 8
		}
		if h.loop.Now-c.sentAt < rto {
			return
		}
		m = &msg{actor: c.last.actor, op: c.last.op, args: c.last.args, ver: v.ver, fault: "retx"}
	}
	c.sentVer, c.sentAt, c.last = v.ver, h.loop.Now, m
	h.transmit(m)
}

func (h *hand) transmit(m *msg) {
	h.send(func(dup bool) {
		mm := *m
		if dup {
			mm.fault = "dup"
		}
		h.deliver(&mm)
	})
}

func (h *hand) chooseAction(c *client, v *view) *msg {
	weights := map[string]int{"pass": 100, "fold": 8, "check": 30, "call": 36, "allin": 5, "bet": 22, "raise": 20}
	calm := !h.faultsOn
	if calm && c.aggr >= 3 {
		weights["bet"], weights["raise"] = 0, 0
	}
	ws := make([]int, len(v.allowed))
	for i, a := range v.allowed {
		ws[i] = weights[a]
	}
	op := v.allowed[h.rng.Weighted(ws)]
	if h.fc.Staller {
		// the stalling strategy: whatever keeps the hand going without
		// moving a chip; termination must hold for every strategy
		// a choice that is refused (an engine may well refuse a zero bet) is
		// not repeated: the next preference is tried at the same turn
		key := fmt.Sprintf("%s/%d/%d", v.gs.Status.Round, v.gs.Status.CurrentWager, v.gs.Status.CurrentRoundPot)
		if key != c.turnKey {
			c.turnKey, c.tries = key, 0
		}
		var avail []string
		for _, pref := range []string{"bet", "check", "pass", "call", "fold", "allin"} {
			if contains(v.allowed, pref) {
				avail = append(avail, pref)
			}
		}
		if len(avail) > 0 {
			op = avail[c.tries%len(avail)]
		}
		c.tries++
		m := &msg{actor: fmt.Sprintf("p%d", c.id), op: op, ver: v.ver}
		if op == "bet" {
			m.args = []int64{0}
		}
		h.r.res.Count("probe.staller-action", 1)
		return m
	}
	m := &msg{actor: fmt.Sprintf("p%d", c.id), op: op, ver: v.ver}
	if h.rng.Chance(0.15) {
		m.actor = "cur" // the table acting for the current player
	}
	if op == "bet" || op == "raise" {
		gs := v.gs
		p := gs.Players[c.id]
		W, R, M := gs.Status.CurrentWager, gs.Status.PreviousRaiseSize, gs.Status.MiniBet
		var a int64
		if op == "bet" {
			switch h.rng.Weighted([]int{40, 15, 15, 10, 10, 10}) {
			case 0:
				a = M + h.rng.Int63n(3*M+2)
			case 1:
				a = M
			case 2:
				a = 1 + h.rng.Int63n(p.StackSize+1)
			case 3:
				a = p.StackSize - 1 + h.rng.Int63n(3)
			default:
				am := boundaryAmounts(gs, c.id)
				a = am[h.rng.Intn(len(am))]
			}
		} else {
			switch h.rng.Weighted([]int{35, 20, 10, 10, 10, 15}) {
			case 0:
				a = W + R + h.rng.Int63n(2*R+2)
			case 1:
				a = W + R
			case 2:
				a = W + R - 1
			case 3:
				a = W + 1 + h.rng.Int63n(R+1)
			case 4:
				a = p.InitialStackSize - 1 + h.rng.Int63n(3)
			default:
				am := boundaryAmounts(gs, c.id)
				a = am[h.rng.Intn(len(am))]
			}
		}
		m.args = []int64{a}
		c.aggr++
	}
	if op == "allin" {
		c.aggr++
	}
	return m
}

// byzantine clients send any operation at any time with any amount
func (h *hand) byzTick(c *client) {
	if h.r.dead || h.closed() || !h.faultsOn {
		return
	}
	gs := h.r.srv.state()
	m := &msg{ver: h.r.srv.version, fault: "byz"}
	if c.id == h.n() {
		m.actor = "driver"
		m.op = driverOps[h.rng.Intn(len(driverOps))]
		if h.rng.Chance(0.3) {
			m.actor = "cur"
			m.op = playerOps[h.rng.Intn(len(playerOps))]
		}
	} else {
		m.actor = fmt.Sprintf("p%d", c.id)
		m.op = playerOps[h.rng.Intn(len(playerOps))]
		if h.rng.Chance(0.35) && gs.Status.CurrentPlayer == c.id && len(gs.Players[c.id].AllowedActions) > 0 {
			// sometimes it is actually its turn and it plays something offered
			al := gs.Players[c.id].AllowedActions
			m.op = al[h.rng.Intn(len(al))]
		}
	}
	if m.op == "bet" || m.op == "raise" || m.op == "pay" {
		seat := c.id
		if seat == h.n() {
			seat = gs.Status.CurrentPlayer
		}
		am := boundaryAmounts(gs, seat)
		m.args = []int64{am[h.rng.Intn(len(am))]}
	}
	h.transmit(m)
	h.loop.After(1+h.rng.Int63n(2*h.fc.ByzRate), func() { h.byzTick(c) })
}

func (h *hand) drawMode(st *sim.Step) string {
	if !h.faultsOn {
		return "warm"
	}
	pr, ph := h.fc.Restart, h.fc.Hop
	if h.phaseChg {
		pr, ph = pr*2, ph*2
	}
	x := h.rng.Float()
	switch {
	case x < ph/2:
		return "hop"
	case x < ph/2+pr/2:
		return "cold"
	}
	return "warm"
}

func (h *hand) deliver(m *msg) {
	r := h.r
	if r.dead {
		return
	}
	if h.closed() {
		if h.extra >= 4 {
			return
		}
		h.extra++
	}
	if len(r.steps) >= h.cap {
		return
	}
	// server crash faults around one operation. Crash before the new state
	// is durable: the operation is lost together with the warm game, the
	// client will retransmit. Crash after it is durable but before anybody
	// hears about it: the broadcast is lost and the warm game is gone, the
	// client retransmits and the server sees a duplicate.
	crashAfter := false
	if h.faultsOn && h.fc.Restart > 0 {
		x := h.rng.Float()
		if x < h.fc.Restart/12 {
			r.res.Count("fault.crash-before-durable", 1)
			r.srv.warm = nil
			return
		}
		crashAfter = x < h.fc.Restart/6
	}
	h.lastDelivery = h.loop.Now
	st := sim.Step{T: h.loop.Now, Actor: m.actor, Op: m.op, Args: m.args, Fault: m.fault}
	if st.Fault == "" && m.ver < r.srv.version {
		st.Fault = "stale"
	}
	st.Mode = h.drawMode(&st)
	idx := len(r.steps)
	evBefore := r.srv.state().Status.CurrentEvent
	d := r.srv.deliver(&st, idx)
	r.steps = append(r.steps, st)
	d.st = &r.steps[idx]
	r.observe(d)
	h.phaseChg = r.srv.state().Status.CurrentEvent != evBefore
	if r.dead {
		return
	}
	// fault phase ends after FaultSteps deliveries
	if h.faultsOn && len(r.steps) >= h.fc.FaultSteps {
		h.faultsOn = false
		// recorded in the trace, so that the replay executor applies the same
		// progress bound from the same point
		r.steps = append(r.steps, sim.Step{T: h.loop.Now, Actor: "sim", Op: "calm"})
		h.calmAt = len(r.steps)
		for _, c := range h.cl {
			c.stalled = false
		}
	}
	if crashAfter {
		r.res.Count("fault.crash-after-durable-before-ack", 1)
		r.srv.warm = nil
		return // nobody is told; the heartbeat will re-announce the state
	}
	h.broadcast()
}

func (h *hand) heartbeat() {
	if h.r.dead || len(h.r.steps) >= h.cap {
		return
	}
	// a hand in which no party finds anything to do for 80 heartbeats is
	// stuck (for example nobody is offered an action): stop simulating, the
	// oracles and the closer judge what is there - this is the system's
	// behaviour, not a harness fault
	if !h.closed() && h.loop.Now-h.lastDelivery > 80*usHeartbeat {
		h.stuck = true
		h.r.res.Count("probe.hand-stuck-no-party-can-move", 1)
		return
	}
	if h.closed() && h.extra >= 2 {
		return
	}
	if h.faultsOn && h.fc.Neighbour && !h.closed() && h.rng.Chance(0.4) {
		st := sim.Step{T: h.loop.Now, Actor: "server", Op: "neighbour", Mode: "warm", Fault: "neighbour-hand"}
		if h.rng.Chance(0.5) {
			st.Args = []int64{1} // played with the other ranking table
		}
		idx := len(h.r.steps)
		h.r.steps = append(h.r.steps, st)
		d := h.r.srv.deliver(&h.r.steps[idx], idx)
		h.r.observe(d)
		if h.r.dead {
			return
		}
	}
	if h.faultsOn && h.fc.Query && !h.closed() && h.rng.Chance(0.5) {
		st := sim.Step{T: h.loop.Now, Actor: "server", Op: "query", Mode: "warm", Fault: "read-only-query",
			Args: []int64{int64(h.rng.Intn(h.n())), 1 + h.rng.Int63n(63)}}
		idx := len(h.r.steps)
		h.r.steps = append(h.r.steps, st)
		d := h.r.srv.deliver(&h.r.steps[idx], idx)
		h.r.observe(d)
		if h.r.dead {
			return
		}
	}
	if h.faultsOn && h.fc.Stall > 0 {
		for _, c := range h.cl {
			if c.stalled {
				if h.rng.Chance(0.5) {
					c.stalled = false
				}
			} else if h.rng.Chance(h.fc.Stall) {
				c.stalled = true
				h.r.res.Count("fault.stall-window", 1)
			}
		}
	}
	h.broadcast()
	// after close: a few more operations arrive and must all be refused
	if h.closed() {
		gs := h.r.srv.state()
		m := &msg{ver: h.r.srv.version, fault: "after-close"}
		if h.rng.Chance(0.5) {
			m.actor, m.op = "driver", driverOps[h.rng.Intn(len(driverOps))]
		} else {
			m.actor = fmt.Sprintf("p%d", h.rng.Intn(h.n()))
			if h.rng.Chance(0.3) {
				m.actor = "cur"
			}
			m.op = playerOps[h.rng.Intn(len(playerOps))]
			if m.op == "bet" || m.op == "raise" || m.op == "pay" {
				am := boundaryAmounts(gs, 0)
				m.args = []int64{am[h.rng.Intn(len(am))]}
			}
		}
		h.transmit(m)
	}
	h.loop.After(usHeartbeat, h.heartbeat)
}

// calmBudget bounds the deliveries an all-honest, fault-free continuation
// may need: every wager increase or all-in is followed by at most one lap
// (C05), honest clients stop being aggressive after three actions each.
func calmBudget(n int) int { return 2 * (n*(4*n+4) + 12) }

func (h *hand) simulate() {
	r := h.r
	n := h.n()
	h.cl = make([]*client, n+1)
	for i := range h.cl {
		h.cl[i] = &client{id: i, sentVer: -1}
	}
	h.faultsOn = !h.fc.None
	if !h.faultsOn {
		r.steps = append(r.steps, sim.Step{Actor: "sim", Op: "calm"})
		h.calmAt = len(r.steps)
	}
	h.cap = h.fc.FaultSteps + calmBudget(n) + 60
	h.broadcast()
	h.loop.After(usHeartbeat, h.heartbeat)
	if h.faultsOn {
		for i, c := range h.cl {
			if h.fc.Byz[i] {
				c := c
				h.loop.After(1+h.rng.Int63n(h.fc.ByzRate), func() { h.byzTick(c) })
			}
		}
	}
	guard := 0
	for !r.dead && !h.stuck && h.loop.Step() {
		guard++
		if guard > 400000 {
			r.res.Fault = "event-loop guard tripped"
			break
		}
		if h.closed() && h.extra >= 2 && h.loop.Pending() > 0 && len(r.steps) >= h.calmAt {
			// drain what is in flight but do not wait for more heartbeats
			if h.extra >= 4 {
				break
			}
		}
		if !h.faultsOn && !h.closed() && len(r.steps)-h.calmAt > calmBudget(n)+40 {
			break
		}
	}
	r.res.SimTime = h.loop.Now
}

// ---- run drivers ----------------------------------------------------------

func (r *run) startChecks(permOK bool, cfg *Cfg) {
	if !permOK {
		r.viol("C14", "shuffle-not-a-permutation", "deck after Start() is not a permutation of the configured deck", 0)
	}
	if r.on("C14") {
		base := baseDeck(cfg.Short)
		cp := cloneStrs(base)
		out := pokerface.ShuffleCards(cp)
		if !isPermutation(base, out) {
			r.viol("C14", "shuffle-not-a-permutation", "ShuffleCards changed the card multiset", 0)
		}
	}
	gs := r.srv.state()
	if gs.Status.CurrentEvent != "ReadyRequested" {
		r.viol("C06", "not-at-a-wait-point", fmt.Sprintf("after Start() the hand is at %q", gs.Status.CurrentEvent), 0)
	}
	if gs.Status.CurrentDeckPosition != 0 {
		// the harness pins the deck right after Start(); if cards are dealt
		// by then the seam is gone - a harness problem, not a violation
		r.res.Fault = fmt.Sprintf("cannot pin the deck: deck position %d right after Start()", gs.Status.CurrentDeckPosition)
		r.dead = true
	}
}

func (r *run) runInvalid(cfg *Cfg) {
	r.res.Steps = 1
	r.res.Count("probe.invalid-config."+cfg.Invalid, 1)
	g := pokerface.NewGame(cfg.Options())
	var err error
	func() {
		defer func() {
			if x := recover(); x != nil {
				err = fmt.Errorf("panic: %v", x)
			}
		}()
		err = g.Start()
	}()
	if err == nil {
		r.viol("C06", "start-accepted-invalid-config: "+cfg.Invalid, fmt.Sprintf("Start() returned nil for %s", cfg.Invalid), 0)
	}
}

// closer finishes a hand deterministically and passively (replay executor,
// and generated runs that stopped early).
func (r *run) closer() {
	budget := calmBudget(r.n)
	for k := 0; k < budget && !r.dead; k++ {
		gs := r.srv.state()
		ev := gs.Status.CurrentEvent
		if ev == "GameClosed" {
			return
		}
		st := sim.Step{Mode: "warm", Fault: "closer"}
		if op, ok := driverFor[ev]; ok {
			st.Actor, st.Op = "driver", op
		} else if ev == "RoundStarted" {
			cur := gs.Status.CurrentPlayer
			st.Actor = fmt.Sprintf("p%d", cur)
			al := gs.Players[cur].AllowedActions
			for _, pref := range []string{"pass", "check", "call", "allin", "fold"} {
				if contains(al, pref) {
					st.Op = pref
					break
				}
			}
			if st.Op == "" {
				r.viol("C06", "nothing-awaited", fmt.Sprintf("current player offered %v: %s", al, fmtState(gs)), len(r.steps))
				return
			}
		} else {
			r.viol("C06", "not-at-a-wait-point", fmt.Sprintf("hand is at %q", ev), len(r.steps))
			return
		}
		idx := len(r.steps)
		r.steps = append(r.steps, st)
		d := r.srv.deliver(&r.steps[idx], idx)
		r.observe(d)
	}
	if !r.dead && r.srv.state().Status.CurrentEvent != "GameClosed" {
		r.viol("C06", "hand-not-finished-within-bound", fmt.Sprintf("still at %s after %d steps", fmtState(r.srv.state()), len(r.steps)), len(r.steps))
	}
}

func (r *run) finish(c *sim.Case) *sim.Result {
	if r.srv != nil {
		r.twinCheck()
	}
	c.Steps = r.steps
	r.res.Case = c
	return r.res
}

// World implements sim.World for world E.
type World struct{}

func (World) Name() string { return "E" }

func (World) Components() map[string]string {
	return map[string]string{
		"pokerface (game.go, player.go, event.go, action.go, pot.go, power.go, settlement.go, deck.go, game_state.go)": "real",
		"pokerface/pot, pokerface/settlement, pokerface/combination":                                                   "real",
		"table.NativeBackend (table/native_backend.go)":                                                                "real",
		"table.Table / table.game (goroutines, timebank, ReadyGroup), actor/*, match/*, competition/*":                 "not run: their role (deliver actions, keep the JSON between calls) is played by the simulated server, clients and transport",
		"players, table driver, network, process restarts":                                                             "simulated",
	}
}

func (w World) Generate(subseed uint64, o sim.Options) *sim.Result {
	shuffleStream(subseed)
	rng := sim.NewRNG(subseed)
	cfg := DrawCfg(rng)
	r := newRun(cfg, o, false)
	cj, _ := json.Marshal(cfg)
	c := &sim.Case{World: "E", Property: o.Property, SubSeed: subseed, Config: cj}
	if cfg.Invalid != "" {
		r.runInvalid(cfg)
		return r.finish(c)
	}
	fc := drawFaults(rng, cfg.N())
	r.twinStart()
	srv, err, permOK := startGame(cfg, r.on("C07"), cfg.ViaBackend)
	if err != nil {
		r.viol("C06", "start-refused-valid-config", fmt.Sprintf("Start() returned %v", err), 0)
		return r.finish(c)
	}
	r.srv = srv
	r.startChecks(permOK, cfg)
	if cfg.ViaBackend {
		r.res.Count("fault.created-through-backend", 1)
	}
	h := &hand{r: r, rng: rng, fc: fc}
	h.simulate()
	if !r.dead && !h.closed() && r.res.Fault == "" {
		if !h.faultsOn && len(r.steps)-h.calmAt > calmBudget(r.n) {
			r.viol("C06", "hand-not-finished-within-bound", fmt.Sprintf("%d deliveries after the faults stopped (bound %d), still at %s", len(r.steps)-h.calmAt, calmBudget(r.n), fmtState(r.srv.state())), len(r.steps))
		} else {
			r.closer()
		}
	}
	faults := int64(0)
	for k, v := range r.res.Counters {
		if len(k) > 6 && k[:6] == "fault." {
			faults += v
		}
	}
	r.res.Nontrivial = faults > 0 && r.srv.state().Status.CurrentEvent == "GameClosed"
	return r.finish(c)
}

func (w World) Replay(c *sim.Case, o sim.Options) *sim.Result {
	shuffleStream(c.SubSeed)
	var cfg Cfg
	res := &sim.Result{}
	if err := json.Unmarshal(c.Config, &cfg); err != nil {
		res.Fault = "bad config: " + err.Error()
		return res
	}
	r := newRun(&cfg, o, true)
	cc := c.Clone()
	if cfg.Invalid != "" {
		r.runInvalid(&cfg)
		return r.finish(cc)
	}
	r.twinStart()
	srv, err, permOK := startGame(&cfg, r.on("C07"), cfg.ViaBackend)
	if err != nil {
		r.viol("C06", "start-refused-valid-config", fmt.Sprintf("Start() returned %v", err), 0)
		return r.finish(cc)
	}
	r.srv = srv
	r.startChecks(permOK, &cfg)
	calmAt := -1
	for i := range c.Steps {
		if r.dead {
			break
		}
		st := c.Steps[i]
		idx := len(r.steps)
		r.steps = append(r.steps, st)
		if st.Actor == "sim" {
			if st.Op == "calm" && calmAt < 0 {
				calmAt = len(r.steps)
			}
			continue
		}
		d := srv.deliver(&r.steps[idx], idx)
		r.observe(d)
	}
	if !r.dead {
		if calmAt >= 0 && r.srv.state().Status.CurrentEvent != "GameClosed" && len(r.steps)-calmAt > calmBudget(r.n) {
			r.viol("C06", "hand-not-finished-within-bound", fmt.Sprintf("%d deliveries after the faults stopped (bound %d), still at %s", len(r.steps)-calmAt, calmBudget(r.n), fmtState(r.srv.state())), len(r.steps))
		} else {
			r.closer()
		}
	}
	return r.finish(cc)
}

func (w World) Simplify(c *sim.Case) []*sim.Case {
	var out []*sim.Case
	var cfg Cfg
	if json.Unmarshal(c.Config, &cfg) != nil {
		return nil
	}
	// all steps warm / one step warm
	nonWarm := 0
	for _, s := range c.Steps {
		if s.Mode != "warm" && s.Mode != "" {
			nonWarm++
		}
	}
	if nonWarm > 0 {
		x := c.Clone()
		for i := range x.Steps {
			x.Steps[i].Mode = "warm"
		}
		out = append(out, x)
		for i, s := range c.Steps {
			if s.Mode != "warm" && s.Mode != "" {
				x := c.Clone()
				x.Steps[i].Mode = "warm"
				out = append(out, x)
			}
		}
		for i, s := range c.Steps {
			if s.Mode == "hop" {
				x := c.Clone()
				x.Steps[i].Mode = "cold"
				out = append(out, x)
			}
		}
	}
	// the table acting for the current player -> explicit seat is not
	// simpler; fault tags are informational: drop them
	tagged := false
	for _, s := range c.Steps {
		if s.Fault != "" {
			tagged = true
		}
	}
	if tagged {
		x := c.Clone()
		for i := range x.Steps {
			x.Steps[i].Fault = ""
			x.Steps[i].T = 0
		}
		out = append(out, x)
	}
	// amounts
	for i, s := range c.Steps {
		if len(s.Args) == 1 {
			a := s.Args[0]
			for _, b := range []int64{0, 1, -1, a / 2, a - 1} {
				if b != a && abs64(b) < abs64(a) {
					x := c.Clone()
					x.Steps[i].Args[0] = b
					out = append(out, x)
				}
			}
		}
	}
	// configuration
	mod := func(f func(*Cfg) bool) {
		var k Cfg
		json.Unmarshal(c.Config, &k)
		if f(&k) {
			x := c.Clone()
			x.Config, _ = json.Marshal(&k)
			out = append(out, x)
		}
	}
	mod(func(k *Cfg) bool { a := k.Ante; k.Ante = 0; return a != 0 })
	mod(func(k *Cfg) bool { a := k.DealerBlind; k.DealerBlind = 0; return a != 0 && k.BB > 0 })
	mod(func(k *Cfg) bool { a := k.Limit; k.Limit = "no"; return a != "no" })
	mod(func(k *Cfg) bool {
		ch := false
		for i := range k.Seats {
			if len(k.Seats[i].Positions) == 1 && k.Seats[i].Positions[0] == "ug" {
				k.Seats[i].Positions = []string{}
				ch = true
			}
		}
		return ch
	})
	for i := range cfg.Seats {
		i := i
		mod(func(k *Cfg) bool {
			b := k.Seats[i].Bankroll
			if b > 1000 {
				k.Seats[i].Bankroll = 1000
				return true
			}
			if b > 100 && b != 100 {
				k.Seats[i].Bankroll = 100
				return true
			}
			return false
		})
	}
	return out
}

func abs64(a int64) int64 {
	if a < 0 {
		return -a
	}
	return a
}
