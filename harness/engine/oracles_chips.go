package engine

import (
	"fmt"
	"sort"

	"github.com/weedbox/pokerface"
)

func contribs(gs *pokerface.GameState) ([]int64, int64) {
	c := make([]int64, len(gs.Players))
	t := int64(0)
	for i, p := range gs.Players {
		c[i] = p.Pot + p.Wager
		t += c[i]
	}
	return c, t
}

// publication points: the state returned by an accepted PayAnte, every
// state at RoundClosed and at GameClosed.
func publication(d *delivery) bool {
	ev := d.post.Status.CurrentEvent
	if ev == "RoundClosed" || ev == "GameClosed" {
		return true
	}
	return d.st.Actor == "driver" && d.st.Op == "ante" && d.err == nil
}

// ---- C01 ------------------------------------------------------------------

func (r *run) checkC01(d *delivery, i int) {
	if !r.on("C01") {
		return
	}
	gs := d.post
	sumW := int64(0)
	for k, p := range gs.Players {
		if k < len(r.cfg.Seats) && p.Bankroll != r.cfg.Seats[k].Bankroll {
			r.viol("C01", "bankroll-changed", fmt.Sprintf("seat %d bankroll %d configured %d", k, p.Bankroll, r.cfg.Seats[k].Bankroll), i)
		}
		if p.StackSize < 0 || p.Wager < 0 || p.Pot < 0 {
			r.viol("C01", "negative-chips", fmt.Sprintf("after %s seat %d stack=%d wager=%d pot=%d", d.st, k, p.StackSize, p.Wager, p.Pot), i)
		}
		if p.StackSize+p.Wager+p.Pot != p.Bankroll {
			r.viol("C01", "bankroll-identity", fmt.Sprintf("after %s seat %d bankroll=%d stack=%d wager=%d pot=%d", d.st, k, p.Bankroll, p.StackSize, p.Wager, p.Pot), i)
		}
		sumW += p.Wager
	}
	if gs.Status.CurrentRoundPot != sumW {
		r.viol("C01", "round-pot", fmt.Sprintf("after %s round pot %d, wagers on the table %d", d.st, gs.Status.CurrentRoundPot, sumW), i)
	}
	if publication(d) {
		_, total := contribs(gs)
		pt := int64(0)
		for _, p := range gs.Status.Pots {
			pt += p.Total
		}
		if pt != total {
			r.viol("C01", "pots-total", fmt.Sprintf("after %s published pots %d, players put in %d (%s)", d.st, pt, total, fmtState(gs)), i)
		}
	}
	if gs.Status.CurrentEvent == "GameClosed" && gs.Result != nil && d.pre.Status.CurrentEvent != "GameClosed" {
		sum := int64(0)
		if len(gs.Result.Players) != len(gs.Players) {
			r.viol("C01", "result-players", fmt.Sprintf("%d result entries for %d players", len(gs.Result.Players), len(gs.Players)), i)
			return
		}
		c, _ := contribs(gs)
		for _, pr := range gs.Result.Players {
			if pr.Idx < 0 || pr.Idx >= len(gs.Players) {
				r.viol("C01", "result-players", fmt.Sprintf("result entry for seat %d", pr.Idx), i)
				continue
			}
			p := gs.Players[pr.Idx]
			sum += pr.Changed
			if pr.Final != p.Bankroll+pr.Changed {
				r.viol("C01", "result-final", fmt.Sprintf("seat %d final %d bankroll %d changed %d", pr.Idx, pr.Final, p.Bankroll, pr.Changed), i)
			}
			if pr.Final < 0 {
				r.viol("C01", "result-final-negative", fmt.Sprintf("seat %d final %d", pr.Idx, pr.Final), i)
			}
			if pr.Changed < -c[pr.Idx] {
				r.viol("C01", "result-loss-bound", fmt.Sprintf("seat %d lost %d, put in %d", pr.Idx, -pr.Changed, c[pr.Idx]), i)
			}
		}
		if sum != 0 {
			r.viol("C01", "result-zero-sum", fmt.Sprintf("changes sum to %d (%s)", sum, fmtState(gs)), i)
		}
	}
}

// ---- C02 ------------------------------------------------------------------

type refPot struct {
	amount   int64
	eligible []int
	layers   [][2]int64 // (amount, contributors) per layer, for the per-level reading
	layerAmt []int64
}

// refPots computes the reference side pots from contributions and folds.
func refPots(c []int64, fold []bool) []refPot {
	lv := append([]int64{}, c...)
	sort.Slice(lv, func(i, j int) bool { return lv[i] < lv[j] })
	var pots []refPot
	prev := int64(0)
	for _, l := range lv {
		if l <= prev {
			continue
		}
		amt := int64(0)
		var el []int
		for k, x := range c {
			if x >= l {
				amt += l - prev
				if !fold[k] {
					el = append(el, k)
				}
			}
		}
		if len(pots) > 0 && sameInts(pots[len(pots)-1].eligible, el) {
			pots[len(pots)-1].amount += amt
			pots[len(pots)-1].layerAmt = append(pots[len(pots)-1].layerAmt, amt)
		} else {
			pots = append(pots, refPot{amount: amt, eligible: el, layerAmt: []int64{amt}})
		}
		prev = l
	}
	return pots
}

func sameInts(a, b []int) bool {
	if len(a) != len(b) {
		return false
	}
	for i := range a {
		if a[i] != b[i] {
			return false
		}
	}
	return true
}

func (r *run) checkC02(d *delivery, i int) {
	if r.on("C02") {
		r.settlementCheck(d, i, "C02")
	}
	// C10: "that strength is the one the showdown compares" - the same
	// reference settlement, fed with the strengths the engine reports
	if r.on("C10") {
		r.settlementCheck(d, i, "C10")
	}
}

func (r *run) settlementCheck(d *delivery, i int, prop string) {
	gs := d.post
	if gs.Status.CurrentEvent != "GameClosed" || d.pre.Status.CurrentEvent == "GameClosed" || gs.Result == nil {
		return
	}
	n := len(gs.Players)
	c, _ := contribs(gs)
	fold := make([]bool, n)
	power := make([]int, n)
	for k, p := range gs.Players {
		fold[k] = p.Fold
		if p.Combination != nil {
			power[k] = p.Combination.Power
		}
	}
	// strengths from the independent evaluator whenever there is a showdown
	// on a full board (the engine's own Power is what C10 judges)
	if prop == "C02" && len(gs.Status.Board) == 5 && alive(gs) >= 2 {
		vals := make([]handVal, n)
		lenient := false
		ok := true
		for k, p := range gs.Players {
			if p.Fold {
				continue
			}
			sels := selections(p.HoleCards, gs.Status.Board, r.cfg.Req)
			if len(sels) == 0 {
				ok = false
				break
			}
			best := evalFive(sels[0], r.cfg.Short)
			for _, sel := range sels {
				if r.cfg.Short && isShortAceLow(sel) {
					lenient = true
				}
				if v := evalFive(sel, r.cfg.Short); best.less(v) {
					best = v
				}
			}
			vals[k] = best
		}
		if ok && !lenient {
			for k := range gs.Players {
				if fold[k] {
					continue
				}
				rank := 1
				for j := range gs.Players {
					if j != k && !fold[j] && vals[j].less(vals[k]) {
						rank++
					}
				}
				power[k] = rank
			}
			r.probe("c02-independent-strengths")
		}
	}
	changed := make([]int64, n)
	got := make([]bool, n)
	for _, pr := range gs.Result.Players {
		if pr.Idx >= 0 && pr.Idx < n {
			changed[pr.Idx] = pr.Changed
			got[pr.Idx] = true
		}
	}
	pots := refPots(c, fold)
	lo := make([]int64, n) // per-pot reading: floor shares
	hi := make([]int64, n) // per-pot reading: ceil shares
	lo2 := make([]int64, n)
	hi2 := make([]int64, n) // per-layer reading (odd chips handed out layer by layer)
	tie, multi := false, false
	for _, p := range pots {
		if len(p.eligible) == 0 {
			r.probe("c02.pot-without-eligible")
			return
		}
		best := -1
		for _, k := range p.eligible {
			if power[k] > best {
				best = power[k]
			}
		}
		var win []int
		for _, k := range p.eligible {
			if power[k] == best {
				win = append(win, k)
			}
		}
		w := int64(len(win))
		if w > 1 {
			tie = true
			r.probe("showdown-tie")
			if len(p.layerAmt) > 1 {
				multi = true
				r.probe("tie-in-multi-level-pot")
			}
			if p.amount%w != 0 {
				r.probe("odd-chip")
			}
		}
		for _, k := range win {
			lo[k] += p.amount / w
			hi[k] += p.amount / w
			if p.amount%w != 0 {
				hi[k]++
			}
			for _, la := range p.layerAmt {
				lo2[k] += la / w
				hi2[k] += la / w
				if la%w != 0 {
					hi2[k]++
				}
			}
		}
	}
	_ = tie
	_ = multi
	if len(pots) >= 3 {
		r.probe("three-or-more-side-pots")
	}
	if prop == "C10" {
		for k := 0; k < n; k++ {
			if !got[k] || fold[k] {
				continue
			}
			net := changed[k] + c[k]
			if (net < lo[k] || net > hi[k]) && (net < lo2[k] || net > hi2[k]) {
				r.viol("C10", "showdown-did-not-compare-the-reported-strengths", fmt.Sprintf("seat %d received %d; with the reported strengths %v (folded %v, contributions %v) it is owed %d..%d", k, net, power, fold, c, lo[k], hi[k]), i)
			}
		}
		return
	}
	for k := 0; k < n; k++ {
		if !got[k] {
			r.viol("C02", "no-result-entry", fmt.Sprintf("seat %d has no result entry", k), i)
			continue
		}
		if fold[k] {
			if c[k] > 0 {
				r.probe("folded-contributor")
			}
			if changed[k] != -c[k] {
				r.viol("C02", "folded-seat-payout", fmt.Sprintf("folded seat %d changed %d, put in %d", k, changed[k], c[k]), i)
			}
			continue
		}
		net := changed[k] + c[k] // gross amount received
		if net >= lo[k] && net <= hi[k] {
			continue
		}
		if net >= lo2[k] && net <= hi2[k] {
			r.viol("C02", "tied-split-off-by-odd-chips (remainders handed out per contribution level instead of per pot)",
				fmt.Sprintf("seat %d received %d, an equal split of its pots allows %d..%d; contributions=%v fold=%v power=%v changed=%v", k, net, lo[k], hi[k], c, fold, power, changed), i)
			continue
		}
		r.viol("C02", "wrong-payout", fmt.Sprintf("seat %d received %d, reference allows %d..%d; contributions=%v fold=%v power=%v changed=%v", k, net, lo[k], hi[k], c, fold, power, changed), i)
	}
	// "every layer of the pot goes to the best-ranked hand or hands": the layers
	// are handed out completely - what the seats receive adds up to what was
	// put in (per-seat bounds alone are met when every tied winner gets the
	// rounded-down share and the odd chips go to nobody: seeded change C02-k1)
	all, paid, put := true, int64(0), int64(0)
	for k := 0; k < n; k++ {
		if !got[k] {
			all = false
		}
		paid += changed[k] + c[k]
		put += c[k]
	}
	if all && paid != put {
		r.viol("C02", "pots-not-handed-out-completely", fmt.Sprintf("the seats put in %d and receive %d; contributions=%v fold=%v power=%v changed=%v", put, paid, c, fold, power, changed), i)
	}
	// (The per-pot `Winners[].Withdraw` records are not judged: the engine
	// leaves out the levels on which a winner merely gets his own chips back,
	// so they are not the winners' shares. The shares are judged through
	// `Changed` above.)
}

// ---- C16 ------------------------------------------------------------------

func (r *run) checkC16(d *delivery, cl opClass, accepted bool, i int) {
	if !r.on("C16") || !publication(d) {
		return
	}
	gs := d.post
	c, total := contribs(gs)
	n := len(gs.Players)
	prev := int64(0)
	sum := int64(0)
	var prevEl []int
	for k, p := range gs.Status.Pots {
		if p.Level <= prev && !(k == 0 && p.Level == 0 && total == 0) {
			r.viol("C16", "levels-not-increasing", fmt.Sprintf("pot %d level %d after %d", k, p.Level, prev), i)
		}
		want := int64(0)
		var el []int
		for s := 0; s < n; s++ {
			a := min64(c[s], p.Level) - min64(c[s], prev)
			if a > 0 {
				want += a
			}
			if !gs.Players[s].Fold && c[s] >= p.Level {
				el = append(el, s)
			}
		}
		if p.Total != want {
			r.viol("C16", "pot-total", fmt.Sprintf("pot %d (level %d..%d) total %d, players put in %d; contributions=%v", k, prev, p.Level, p.Total, want, c), i)
		}
		// non-folded seats listed must be exactly the eligible ones, each
		// with the per-pot amount
		var listed []int
		foldedListed := -1
		foldedOdd := -1
		for s := 0; s < n; s++ {
			amt, ok := p.Contributors[s]
			if !ok {
				continue
			}
			if gs.Players[s].Fold {
				foldedListed = s
				// the recorded finding: listed with the whole contribution,
				// in pots up to the seat's own level
				if amt != c[s] || c[s] < prev {
					foldedOdd = s
				}
				continue
			}
			listed = append(listed, s)
			if amt != p.Level-prev {
				r.viol("C16", "eligible-amount", fmt.Sprintf("pot %d lists seat %d with %d, per-pot amount is %d", k, s, amt, p.Level-prev), i)
			}
		}
		for s := range p.Contributors {
			if s < 0 || s >= n {
				r.viol("C16", "unknown-seat-listed", fmt.Sprintf("pot %d lists seat %d", k, s), i)
			}
		}
		if !sameInts(listed, el) {
			r.viol("C16", "eligible-set", fmt.Sprintf("pot %d (level %d) lists non-folded seats %v, those who reached it are %v; contributions=%v", k, p.Level, listed, el, c), i)
		}
		if foldedListed >= 0 {
			r.probe("folded-contributor-in-pot")
			if foldedOdd >= 0 {
				r.viol("C16", "folded-seat-listed-in-unexpected-form", fmt.Sprintf("pot %d (level %d..%d) lists folded seat %d with %d, its contribution is %d", k, prev, p.Level, foldedOdd, p.Contributors[foldedOdd], c[foldedOdd]), i)
			} else {
				r.viol("C16", "folded-seat-listed-as-pot-contributor (with its whole contribution, in pots up to its own level)", fmt.Sprintf("pot %d lists folded seat %d (with %d)", k, foldedListed, p.Contributors[foldedListed]), i)
			}
		}
		if k > 0 && !(len(el) < len(prevEl)) {
			r.viol("C16", "eligible-sets-not-shrinking", fmt.Sprintf("pot %d eligible %v, previous %v", k, el, prevEl), i)
		}
		prevEl = el
		prev = p.Level
		sum += p.Total
	}
	if sum != total {
		r.viol("C16", "totals-sum", fmt.Sprintf("pots add up to %d, players put in %d; contributions=%v", sum, total, c), i)
	}
	if len(gs.Status.Pots) >= 3 {
		r.probe("published-3+-pots")
	}
}

func min64(a, b int64) int64 {
	if a < b {
		return a
	}
	return b
}
