package engine

import (
	"bytes"
	"encoding/json"
	"fmt"
	"sort"

	"verif/harness/sim"

	"github.com/weedbox/pokerface"
	"github.com/weedbox/pokerface/combination"
)

// ---- C14 ------------------------------------------------------------------

func (r *run) checkC14(d *delivery, i int) {
	if !r.on("C14") {
		return
	}
	pre, post := d.pre, d.post
	if len(post.Meta.Deck) != len(r.cfg.Deck) {
		r.viol("C14", "deck-changed", fmt.Sprintf("deck has %d cards, configured %d", len(post.Meta.Deck), len(r.cfg.Deck)), i)
		return
	}
	for k := range r.cfg.Deck {
		if post.Meta.Deck[k] != r.cfg.Deck[k] {
			r.viol("C14", "deck-changed", fmt.Sprintf("deck position %d is %s, was %s", k, post.Meta.Deck[k], r.cfg.Deck[k]), i)
			return
		}
	}
	pos := post.Status.CurrentDeckPosition
	if pos < 0 || pos > len(post.Meta.Deck) {
		r.viol("C14", "deck-position", fmt.Sprintf("deck position %d", pos), i)
		return
	}
	var out []string
	for _, p := range post.Players {
		out = append(out, p.HoleCards...)
	}
	out = append(out, post.Status.Board...)
	out = append(out, post.Status.Burned...)
	seen := map[string]bool{}
	for _, c := range out {
		if seen[c] {
			r.viol("C14", "card-dealt-twice", fmt.Sprintf("card %s appears twice among hole/board/burned after %s", c, d.st), i)
		}
		seen[c] = true
	}
	top := append([]string{}, post.Meta.Deck[:pos]...)
	a := append([]string{}, out...)
	sort.Strings(a)
	sort.Strings(top)
	if len(a) != len(top) {
		r.viol("C14", "dealt-cards-not-deck-prefix", fmt.Sprintf("%d cards out, deck position %d (after %s)", len(a), pos, d.st), i)
	} else {
		for k := range a {
			if a[k] != top[k] {
				r.viol("C14", "dealt-cards-not-deck-prefix", fmt.Sprintf("cards out %v are not the top %d of the deck %v", a, pos, top), i)
				break
			}
		}
	}
	if post.Status.Round != "" {
		for k, p := range post.Players {
			if len(p.HoleCards) != r.cfg.Hole {
				r.viol("C14", "hole-card-count", fmt.Sprintf("seat %d has %d hole cards, configured %d", k, len(p.HoleCards), r.cfg.Hole), i)
			}
		}
	}
	b, bu := len(post.Status.Board), len(post.Status.Burned)
	streets := map[int]int{0: 0, 3: 1, 4: 2, 5: 3}
	k, okBoard := streets[b]
	// one card is burned per street; an engine that honours the burn_count
	// option instead burns that many (leniency: the statement says one, the
	// option exists)
	okBurn := bu == k || (r.cfg.BurnCount > 0 && bu == k*r.cfg.BurnCount)
	if !okBoard || !okBurn {
		r.viol("C14", "board-burn-shape", fmt.Sprintf("board %d cards, burned %d", b, bu), i)
	}
	wantB := map[string]int{"": 0, "preflop": 0, "flop": 3, "turn": 4, "river": 5}[post.Status.Round]
	if b != wantB {
		r.viol("C14", "board-size-for-street", fmt.Sprintf("round %q with %d board cards", post.Status.Round, b), i)
	}
	// dealt cards never change
	if !prefixOf(pre.Status.Board, post.Status.Board) || !prefixOf(pre.Status.Burned, post.Status.Burned) {
		r.viol("C14", "dealt-card-changed", fmt.Sprintf("board %v -> %v, burned %v -> %v", pre.Status.Board, post.Status.Board, pre.Status.Burned, post.Status.Burned), i)
	}
	for k := range post.Players {
		if k < len(pre.Players) && len(pre.Players[k].HoleCards) > 0 && !sameStrs(pre.Players[k].HoleCards, post.Players[k].HoleCards) {
			r.viol("C14", "dealt-card-changed", fmt.Sprintf("seat %d hole cards %v -> %v", k, pre.Players[k].HoleCards, post.Players[k].HoleCards), i)
		}
	}
}

func prefixOf(a, b []string) bool {
	if len(a) > len(b) {
		return false
	}
	for i := range a {
		if a[i] != b[i] {
			return false
		}
	}
	return true
}

func sameStrs(a, b []string) bool { return len(a) == len(b) && prefixOf(a, b) }

// ---- C10 ------------------------------------------------------------------

func (r *run) checkC10(d *delivery, i int) {
	if !r.on("C10") {
		return
	}
	pre, post := d.pre, d.post
	board := post.Status.Board
	if len(board) < 3 {
		return
	}
	fresh := len(board) != len(pre.Status.Board)
	closing := post.Status.CurrentEvent == "GameClosed" && pre.Status.CurrentEvent != "GameClosed"
	if !fresh && !closing && !d.restart {
		return
	}
	n := len(post.Players)
	seats := make([]int, 0, n)
	if r.thorough || closing {
		for k := 0; k < n; k++ {
			seats = append(seats, k)
		}
	} else {
		h := sim.Mix(uint64(d.idx), uint64(len(board)))
		seats = append(seats, int(h%uint64(n)))
		if n > 1 {
			seats = append(seats, int((h/7)%uint64(n)))
		}
	}
	for _, k := range seats {
		r.checkSeatHand(post, k, i)
	}
}

func (r *run) checkSeatHand(gs *pokerface.GameState, k int, i int) {
	p := gs.Players[k]
	ci := p.Combination
	if ci == nil {
		r.viol("C10", "no-combination", fmt.Sprintf("seat %d has no reported hand with %d board cards", k, len(gs.Status.Board)), i)
		return
	}
	short := r.cfg.Short
	req := r.cfg.Req
	if len(ci.Cards) != 5 {
		r.viol("C10", "not-five-cards", fmt.Sprintf("seat %d reported %v", k, ci.Cards), i)
		return
	}
	// admissible selection of the seat's own cards
	inHole, inBoard := 0, 0
	used := map[string]bool{}
	for _, c := range ci.Cards {
		if used[c] {
			r.viol("C10", "selection-repeats-a-card", fmt.Sprintf("seat %d reported %v", k, ci.Cards), i)
			return
		}
		used[c] = true
		switch {
		case contains(p.HoleCards, c):
			inHole++
		case contains(gs.Status.Board, c):
			inBoard++
		default:
			r.viol("C10", "selection-uses-foreign-card", fmt.Sprintf("seat %d reported %v, hole %v board %v", k, ci.Cards, p.HoleCards, gs.Status.Board), i)
			return
		}
	}
	if req > 0 && inHole != req {
		r.viol("C10", "required-hole-cards", fmt.Sprintf("seat %d reported %v using %d hole cards, %d required (hole %v)", k, ci.Cards, inHole, req, p.HoleCards), i)
		return
	}
	mine := evalFive(ci.Cards, short)
	lenient := false
	var better []string
	for _, sel := range selections(p.HoleCards, gs.Status.Board, req) {
		if short && isShortAceLow(sel) {
			lenient = true
			continue
		}
		v := evalFive(sel, short)
		if mine.less(v) {
			better = append([]string{}, sel...)
			mine2 := v
			_ = mine2
			break
		}
	}
	if short && isShortAceLow(ci.Cards) {
		lenient = true
	}
	if lenient {
		r.probe("short-deck-A6789-leniency")
	}
	if better != nil && !lenient {
		r.viol("C10", "not-the-best-hand", fmt.Sprintf("seat %d reported %v (%s) but %v is better; hole %v board %v", k, ci.Cards, ci.Type, better, p.HoleCards, gs.Status.Board), i)
	}
	if !(short && isShortAceLow(ci.Cards)) && ci.Type != catName[mine.cat] {
		r.viol("C10", "category-mismatch", fmt.Sprintf("seat %d reported %v as %s, it is %s", k, ci.Cards, ci.Type, catName[mine.cat]), i)
	}
	ps := combination.CalculatePower(gs.Meta.CombinationPowers, ci.Cards)
	if int(ps.Score) != ci.Power {
		r.viol("C10", "power-mismatch", fmt.Sprintf("seat %d reported power %d, its cards %v score %d", k, ci.Power, ci.Cards, ps.Score), i)
	}
	if req > 0 {
		r.probe("four-hole-hand-checked")
	}
}

// ---- C15 ------------------------------------------------------------------

func (r *run) checkC15(d *delivery, i int) {
	if !r.on("C15") {
		return
	}
	post := d.post
	n := len(post.Players)
	viewers := []int{-1}
	if r.thorough {
		for k := 0; k < n; k++ {
			viewers = append(viewers, k)
		}
	} else {
		h := sim.Mix(uint64(d.idx), 0xc15)
		viewers = append(viewers, int(h%uint64(n)))
		if n > 2 {
			viewers = append(viewers, int((h/11)%uint64(n)))
		}
	}
	closed := post.Status.CurrentEvent == "GameClosed"
	pos := post.Status.CurrentDeckPosition
	// a request for the view of a seat that is not in the hand it is asked
	// about (a late request reaching a smaller table of the same server): it
	// must not leave anything behind that shows in the views of this hand
	if r.thorough || sim.Mix(uint64(d.idx), 0xf0e)%6 == 0 {
		small := &pokerface.GameState{Players: []*pokerface.PlayerState{
			{Idx: 0, HoleCards: []string{"S2", "H3"}, Combination: &pokerface.CombinationInfo{}},
			{Idx: 1, HoleCards: []string{"D4", "C5"}, Combination: &pokerface.CombinationInfo{}}}}
		small.Status.CurrentEvent = "RoundStarted"
		for k := 2; k < n+2; k++ {
			func() {
				defer func() { recover() }()
				small.AsPlayer(k)
			}()
		}
		r.probe("view-requested-for-a-seat-not-in-the-hand")
	}
	for _, v := range viewers {
		view := fromJSON(d.postJSON) // the table layer clones through JSON before redacting
		pan := func() (pan string) {
			defer func() {
				if x := recover(); x != nil {
					pan = fmt.Sprint(x)
				}
			}()
			if v < 0 {
				view.AsObserver()
			} else {
				view.AsPlayer(v)
			}
			return ""
		}()
		if pan != "" {
			r.viol("C15", "view-call-panicked", fmt.Sprintf("preparing the view for viewer %d at %s panicked: %s", v, post.Status.CurrentEvent, pan), i)
			continue
		}
		js, err := json.Marshal(view)
		if err != nil {
			r.viol("C15", "view-not-serialisable", err.Error(), i)
			continue
		}
		who := "observer"
		if v >= 0 {
			who = fmt.Sprintf("seat %d", v)
		}
		var hidden []string
		if pos >= 0 && pos <= len(post.Meta.Deck) {
			hidden = append(hidden, post.Meta.Deck[pos:]...)
		}
		hidden = append(hidden, post.Status.Burned...)
		for k, p := range post.Players {
			if k == v {
				continue
			}
			if !closed || p.Fold {
				hidden = append(hidden, p.HoleCards...)
				vp := view.Players[k]
				if vp.Combination != nil && (len(vp.Combination.Cards) > 0 || vp.Combination.Power != 0 || vp.Combination.Type != "") {
					what := "hand evaluation of another seat visible before the hand is closed"
					if closed {
						what = "hand evaluation of a folded seat visible after the hand is closed"
					}
					r.viol("C15", "evaluation-leak: "+what, fmt.Sprintf("%s sees seat %d combination %+v at %s", who, k, *vp.Combination, post.Status.CurrentEvent), i)
				}
			}
		}
		for _, c := range hidden {
			if bytes.Contains(js, []byte(`"`+c+`"`)) {
				kind := "undealt/burned/other-seat card"
				switch {
				case contains(post.Status.Burned, c):
					kind = "burned card"
				case pos <= len(post.Meta.Deck) && contains(post.Meta.Deck[pos:], c):
					kind = "undealt deck card"
				default:
					kind = "other seat's hole card"
					if closed {
						kind = "folded seat's hole card after close"
					}
				}
				r.viol("C15", "card-leak: "+kind, fmt.Sprintf("%s view at %s contains hidden card %s", who, post.Status.CurrentEvent, c), i)
				break
			}
		}
		// own cards and public information unchanged
		if v >= 0 {
			a, _ := json.Marshal(post.Players[v])
			b, _ := json.Marshal(view.Players[v])
			if !bytes.Equal(a, b) {
				r.viol("C15", "own-seat-altered", fmt.Sprintf("%s own seat differs in its view", who), i)
			}
		}
		pub := func(g *pokerface.GameState) []byte {
			// nil and empty slices are the same thing after a JSON round trip
			x := fmt.Sprintf("ante=%d blind=%v limit=%s hole=%d/%d |", g.Meta.Ante, g.Meta.Blind, g.Meta.Limit, g.Meta.HoleCardsCount, g.Meta.RequiredHoleCardsCount)
			st := g.Status
			x += fmt.Sprintf("%d %d %s %v %d %d %d %d %d %d %s|", st.MiniBet, st.MaxWager, st.Round, st.Board, st.PreviousRaiseSize, st.CurrentDeckPosition,
				st.CurrentRoundPot, st.CurrentWager, st.CurrentRaiser, st.CurrentPlayer, st.CurrentEvent)
			if st.LastAction != nil {
				x += fmt.Sprintf("la=%v|", *st.LastAction)
			}
			for _, p := range st.Pots {
				keys := make([]int, 0, len(p.Contributors))
				for k := range p.Contributors {
					keys = append(keys, k)
				}
				sort.Ints(keys)
				x += fmt.Sprintf("pot %d %d %d:", p.Level, p.Wager, p.Total)
				for _, k := range keys {
					x += fmt.Sprintf(" %d=%d", k, p.Contributors[k])
				}
				x += "|"
			}
			for _, p := range g.Players {
				x += fmt.Sprintf("seat %d %v %v %v %s %v %v %d %d %d %d %d|", p.Idx, p.Positions, p.AllowedActions, p.Acted, p.DidAction, p.Fold, p.VPIP,
					p.Bankroll, p.InitialStackSize, p.StackSize, p.Pot, p.Wager)
			}
			if g.Result != nil {
				rj, _ := json.Marshal(g.Result)
				x += string(rj)
			}
			return []byte(x)
		}
		if !bytes.Equal(pub(post), pub(view)) {
			r.viol("C15", "public-information-altered", fmt.Sprintf("%s view differs from the state in public fields", who), i)
		}
		if closed {
			r.probe("view-after-close")
		}
	}
}
