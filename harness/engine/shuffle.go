package engine

import (
	"sync/atomic"

	"verif/harness/sim"

	"github.com/weedbox/pokerface"
)

// The engine seeds math/rand from the wall clock before every shuffle. The
// repository's verif hook puts that seed behind a seam: in simulation the
// k-th shuffle of a run is seeded with Mix(run sub-seed, k). On the unchanged
// tree this only matters for the C14 shuffle clause (the deck is pinned right
// after Start()); code that shuffles again later stays replayable.
var shufBase, shufCtr uint64

func init() {
	pokerface.VerifShuffleSeed = func() int64 {
		return int64(sim.Mix(atomic.LoadUint64(&shufBase), atomic.AddUint64(&shufCtr, 1)) >> 1)
	}
}

func shuffleStream(subseed uint64) {
	atomic.StoreUint64(&shufBase, subseed)
	atomic.StoreUint64(&shufCtr, 0)
}
