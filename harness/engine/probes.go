package engine

import (
	"fmt"

	"verif/harness/sim"

	"github.com/weedbox/pokerface"
)

// boundary amounts for hostile bet / raise / pay arguments at a state
func boundaryAmounts(gs *pokerface.GameState, seat int) []int64 {
	W, R, M := gs.Status.CurrentWager, gs.Status.PreviousRaiseSize, gs.Status.MiniBet
	S, st := int64(0), int64(0)
	if seat >= 0 && seat < len(gs.Players) {
		S, st = gs.Players[seat].InitialStackSize, gs.Players[seat].StackSize
	}
	return []int64{-1 << 40, -5, -1, 0, 1, M - 1, M, M + 1, W - 1, W, W + 1, W + R - 1, W + R, W + R + 1, 2*W + R, S - 1, S, S + 1, st, 3*S + 7, 1 << 40}
}

// probes implements the C04 cross product: at the wait point just reached,
// every illegitimate (seat, operation) pair is tried on a clone rebuilt from
// the durable JSON (a cold restart on the side) and must be refused with an
// error and without effect. Quick samples a few pairs per step, thorough
// more, replay all of them.
func (r *run) probes(d *delivery, cl opClass, accepted bool) {
	gs := r.srv.state()
	prop := "C04"
	if !r.on("C04") {
		// C06: a closed hand accepts nothing
		if !r.on("C06") || gs.Status.CurrentEvent != "GameClosed" {
			return
		}
		prop = "C06"
	}
	if r.dead {
		return
	}
	n := len(gs.Players)
	type pr struct {
		actor, op string
	}
	var all []pr
	for _, op := range driverOps {
		all = append(all, pr{"driver", op})
	}
	for _, op := range playerOps {
		all = append(all, pr{"cur", op})
		for k := 0; k < n; k++ {
			all = append(all, pr{fmt.Sprintf("p%d", k), op})
		}
	}
	budget := 3
	if r.thorough {
		budget = 10
	}
	if r.replay || prop == "C06" {
		budget = len(all)
	}
	h := sim.Mix(uint64(d.idx), 0xc04, uint64(len(r.steps)))
	var clone pokerface.Game
	tried := 0
	for j := 0; j < len(all) && tried < budget; j++ {
		p := all[(int(h%uint64(len(all)))+j*7)%len(all)]
		if len(all)%7 == 0 {
			p = all[(int(h%uint64(len(all)))+j)%len(all)]
		}
		st := sim.Step{Actor: p.actor, Op: p.op}
		seat := gs.Status.CurrentPlayer
		if p.actor != "cur" && p.actor != "driver" {
			seat = seatOf(p.actor)
		}
		if p.op == "bet" || p.op == "raise" || p.op == "pay" {
			am := boundaryAmounts(gs, seat)
			st.Args = []int64{am[int(sim.Mix(h, uint64(j))%uint64(len(am)))]}
		}
		c := classify(gs, &st)
		if c.legit {
			continue
		}
		tried++
		if clone == nil {
			clone = r.srv.probeClone()
		}
		err, pan := applyOp(clone, &st)
		r.res.Count("probe.c04-cross-product", 1)
		after := marshalNorm(clone.GetState())
		changed := string(after) != string(r.srv.durable)
		if pan != "" {
			r.viol(prop, "panic: illegitimate "+st.Op+" ("+c.kind+")", fmt.Sprintf("probe %s at %s: %s", st, fmtState(gs), pan), d.idx)
			clone = nil
			continue
		}
		if err == nil {
			r.viol(prop, fmt.Sprintf("refusal/no-error: op=%s class=%s", st.Op, c.kind),
				fmt.Sprintf("probe %s at %s returned nil (state %s)", st, fmtState(gs), map[bool]string{true: "changed", false: "unchanged"}[changed]), d.idx)
		}
		if changed {
			r.viol(prop, fmt.Sprintf("refusal/state-changed: op=%s class=%s", st.Op, c.kind),
				fmt.Sprintf("probe %s at %s changed the state: %s", st, fmtState(gs), firstDiff(after, r.srv.durable)), d.idx)
			clone = nil
		}
	}
}
