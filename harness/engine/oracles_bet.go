package engine

import (
	"fmt"
)

// ---- C11 ------------------------------------------------------------------

func (r *run) checkC11(d *delivery, cl opClass, accepted bool, i int) {
	if !r.on("C11") {
		return
	}
	pre, post := d.pre, d.post
	// offers at every RoundStarted wait point
	if post.Status.CurrentEvent == "RoundStarted" {
		cur := post.Status.CurrentPlayer
		if cur >= 0 && cur < len(post.Players) {
			p := post.Players[cur]
			of := p.AllowedActions
			// the situation is read from the chips on the table and from the
			// harness's own tracking, not from the engine's derived fields:
			// wager to match = highest wager, minimum raise = size of the
			// previous bet/raise under the strictest reading, minimum bet =
			// the larger of big blind and dealer blind, stack at the start of
			// the round = chips behind + chips wagered this round
			W := post.Status.CurrentWager
			for _, q := range post.Players {
				if q.Wager > W {
					W = q.Wager
				}
			}
			R := r.trackAfter(d, cl, accepted)
			M := r.cfg.BB
			if r.cfg.DealerBlind > M {
				M = r.cfg.DealerBlind
			}
			S := p.StackSize + p.Wager
			has := func(a string) bool { return contains(of, a) }
			bad := func(sig, why string) {
				r.viol("C11", "offer/"+sig, fmt.Sprintf("seat %d offered %v: %s; %s", cur, of, why, fmtState(post)), i)
			}
			if p.Fold || p.StackSize == 0 {
				if len(of) != 1 || of[0] != "pass" {
					bad("pass-only", "a folded or all-in seat is only asked to pass")
				}
			} else {
				if !has("allin") {
					bad("allin-missing", "all-in must always be offered")
				}
				if has("pass") {
					bad("pass-offered", "pass offered to a seat that can act")
				}
				if has("fold") != (p.Wager < W) {
					bad("fold", fmt.Sprintf("fold must be offered exactly when facing a higher wager (wager %d, to match %d)", p.Wager, W))
				}
				if has("check") != (p.Wager >= W) {
					bad("check", fmt.Sprintf("check must be offered exactly when not facing a higher wager (wager %d, to match %d)", p.Wager, W))
				}
				if p.Wager < W && S > W && !has("call") {
					bad("call-missing", fmt.Sprintf("faces %d with %d behind at round start", W, S))
				}
				if p.Wager >= W && has("call") {
					bad("call-offered", "call offered with nothing to call")
				}
				if W == 0 && S >= M && !has("bet") {
					bad("bet-missing", fmt.Sprintf("nobody has wagered, stack %d >= minimum bet %d", S, M))
				}
				if W > 0 && has("bet") {
					bad("bet-offered", "bet offered while a wager stands")
				}
				// "never offered in the opposite situations": a stack below
				// the minimum bet under every reading of it (the big blind;
				// the dealer blind when there is no big blind)
				mlo := r.cfg.BB
				if mlo == 0 {
					mlo = r.cfg.DealerBlind
				}
				if has("bet") && S < mlo {
					bad("bet-offered-below-minimum-bet", fmt.Sprintf("bet offered with %d behind, minimum bet %d", S, mlo))
				}
				if W > 0 && S > W+R && S >= M && !has("raise") {
					bad("raise-missing", fmt.Sprintf("wager %d stands, stack %d > %d + min raise %d", W, S, W, R))
				}
				if W == 0 && has("raise") {
					bad("raise-offered", "raise offered while nobody has wagered")
				}
				if S == W {
					r.probe("stack-equals-wager")
				}
				if S > W && S <= W+R && W > 0 {
					r.probe("stack-between-call-and-min-raise")
				}
			}
		}
	}
	if !accepted || cl.seat < 0 {
		return
	}
	s := cl.seat
	pp, qp := pre.Players[s], post.Players[s]
	W := pre.Status.CurrentWager
	switch d.st.Op {
	case "check", "fold", "pass":
		for k := range pre.Players {
			a, b := pre.Players[k], post.Players[k]
			if a.Wager != b.Wager || a.StackSize != b.StackSize || a.Pot != b.Pot {
				r.viol("C11", "effect/"+d.st.Op+"-moved-chips", fmt.Sprintf("seat %d %s changed seat %d chips: %s -> %s", s, d.st.Op, k, fmtState(pre), fmtState(post)), i)
			}
		}
		if pre.Status.CurrentWager != post.Status.CurrentWager || pre.Status.CurrentRoundPot != post.Status.CurrentRoundPot {
			r.viol("C11", "effect/"+d.st.Op+"-moved-chips", fmt.Sprintf("seat %d %s changed wager to match / round pot: %s -> %s", s, d.st.Op, fmtState(pre), fmtState(post)), i)
		}
	case "allin":
		if qp.StackSize != 0 || qp.Wager != pp.InitialStackSize {
			r.viol("C11", "effect/allin", fmt.Sprintf("seat %d all-in with %d at round start ended with stack %d wager %d", s, pp.InitialStackSize, qp.StackSize, qp.Wager), i)
		}
	case "bet":
		x := arg0(d.st)
		if x > 0 && x < pp.StackSize {
			if qp.Wager != x || post.Status.CurrentWager != x {
				r.viol("C11", "effect/bet", fmt.Sprintf("seat %d bet %d (stack %d): wager %d, wager to match %d", s, x, pp.StackSize, qp.Wager, post.Status.CurrentWager), i)
			}
		}
	case "call":
		ok := qp.Wager == W || (qp.StackSize == 0 && qp.Wager < W)
		if !ok && W < r.cfg.BB {
			// leniency: a call of less than one big blind is completed to
			// the big blind (pinned by Test_Actions_CallTo1BBInPreflop)
			ok = qp.Wager == r.cfg.BB || (qp.StackSize == 0 && qp.Wager <= r.cfg.BB)
			if ok {
				r.probe("call-completed-to-bb")
			}
		}
		if !ok {
			r.viol("C11", "effect/call", fmt.Sprintf("seat %d called %d: wager %d stack %d", s, W, qp.Wager, qp.StackSize), i)
		}
	}
}

// ---- C12 ------------------------------------------------------------------

func (r *run) checkC12(d *delivery, cl opClass, accepted bool, i int) {
	if !r.on("C12") {
		return
	}
	pre, post := d.pre, d.post
	// always: no amount can corrupt chips
	for k, p := range post.Players {
		if p.Wager < 0 || p.StackSize < 0 || p.Pot < 0 {
			r.viol("C12", "negative-chips: op="+d.st.Op, fmt.Sprintf("after %s seat %d stack=%d wager=%d pot=%d", d.st, k, p.StackSize, p.Wager, p.Pot), i)
		}
		if p.StackSize > p.Bankroll {
			r.viol("C12", "stack-above-bankroll: op="+d.st.Op, fmt.Sprintf("after %s seat %d stack=%d bankroll=%d", d.st, k, p.StackSize, p.Bankroll), i)
		}
	}
	if post.Status.CurrentRoundPot < 0 || post.Status.CurrentWager < 0 {
		r.viol("C12", "negative-chips: op="+d.st.Op, fmt.Sprintf("after %s round pot %d wager to match %d", d.st, post.Status.CurrentRoundPot, post.Status.CurrentWager), i)
	}
	sameRound := pre.Status.Round == post.Status.Round && !(d.st.Actor == "driver" && (d.st.Op == "next" || d.st.Op == "ante"))
	if sameRound && post.Status.CurrentWager < pre.Status.CurrentWager {
		r.viol("C12", "wager-to-match-decreased", fmt.Sprintf("%s lowered the wager to match from %d to %d", d.st, pre.Status.CurrentWager, post.Status.CurrentWager), i)
	}
	if d.st.Op == "bet" || d.st.Op == "raise" {
		a := arg0(d.st)
		switch {
		case a < 0:
			r.probe("amount-negative")
		case a == 0:
			r.probe("amount-zero")
		}
	}
	// raise sizing, no-limit
	if !cl.legit || d.st.Op != "raise" || cl.seat < 0 {
		return
	}
	s := cl.seat
	L := arg0(d.st)
	W := pre.Status.CurrentWager
	for _, q := range pre.Players {
		if q.Wager > W {
			W = q.Wager // the wager to match is the highest wager on the table
		}
	}
	S := pre.Players[s].StackSize + pre.Players[s].Wager
	t := &r.tr
	// "The size of the previous bet or raise of the round": a raise must be
	// carried out exactly when it is sufficient under every reading (hi: the
	// largest of last full bet/raise, last increase of any kind, last
	// increase made by a betting action), and must not be carried out when it
	// is undersized under the poker rule (lo: the last full bet/raise made by
	// a betting action - an incomplete all-in or a call completed to the big
	// blind does not lower or raise it).
	hi, lo := t.lastFull, t.lastFullAct
	for _, x := range []int64{t.lastAny, t.lastAct, t.lastFullAct} {
		if x > hi {
			hi = x
		}
	}
	qp := post.Players[s]
	if L < W {
		r.probe("raise-below-wager")
		if d.err == nil || string(d.preJSON) != string(d.postJSON) {
			r.viol("C12", "raise-below-current-wager-not-refused", fmt.Sprintf("raise to %d with %d to match: err=%v, state changed=%v", L, W, d.err, string(d.preJSON) != string(d.postJSON)), i)
		}
		return
	}
	if L == W || pre.Status.CurrentEvent != "RoundStarted" {
		return // a raise to the wager to match is a call
	}
	if r.cfg.Limit != "no" || L >= S {
		return
	}
	if L-W >= hi {
		r.probe("raise-at-or-above-min")
		if L-W == hi {
			r.probe("raise-exactly-min")
		}
		ok := d.err == nil && post.Status.CurrentWager == L && qp.Wager == L && post.Status.CurrentRaiser == s && post.Status.PreviousRaiseSize == L-W
		if !ok {
			r.viol("C12", "raise-exact: a sufficient raise was not carried out exactly",
				fmt.Sprintf("seat %d raise to %d (to match %d, previous bet/raise %d, stack %d): err=%v wager=%d to-match=%d raiser=%d min-raise=%d; before: %s", s, L, W, hi, S, d.err, qp.Wager, post.Status.CurrentWager, post.Status.CurrentRaiser, post.Status.PreviousRaiseSize, fmtState(pre)), i)
		}
	} else if L-W < lo {
		r.probe("raise-undersized")
		if d.err == nil && qp.Wager == L && qp.StackSize > 0 {
			r.viol("C12", "undersized-raise-carried-out", fmt.Sprintf("seat %d raise to %d (to match %d, previous bet/raise %d) was carried out", s, L, W, lo), i)
		}
	}
}

// ---- C13 ------------------------------------------------------------------

func (r *run) checkC13(d *delivery, cl opClass, accepted bool, i int) {
	if !r.on("C13") || !accepted || d.st.Actor != "driver" {
		return
	}
	pre, post := d.pre, d.post
	c := r.cfg
	if d.st.Op == "ante" {
		for k, p := range post.Players {
			want := min64(c.Ante, c.Seats[k].Bankroll)
			if p.Pot != want || p.Wager != 0 {
				r.viol("C13", "ante-amount", fmt.Sprintf("seat %d (bankroll %d, ante %d): pot %d wager %d", k, c.Seats[k].Bankroll, c.Ante, p.Pot, p.Wager), i)
			}
			if c.Seats[k].Bankroll <= c.Ante {
				r.probe("ante-all-in")
			}
		}
		if post.Status.CurrentWager != 0 {
			r.viol("C13", "ante-counts-toward-wager", fmt.Sprintf("wager to match %d after the ante", post.Status.CurrentWager), i)
		}
		return
	}
	// forced bets are complete when the first betting round is about to
	// open: evaluated on the state the preflop ready step meets, so that a
	// skipped blinds step is seen as well
	if d.st.Op == "ready" && pre.Status.Round == "preflop" && !r.tr.blindsChecked {
		r.tr.blindsChecked = true
		gs := pre
		maxPosted := int64(0)
		for k, p := range gs.Players {
			stack := c.Seats[k].Bankroll - min64(c.Ante, c.Seats[k].Bankroll)
			want, role := int64(0), "no blind"
			switch {
			case c.seatHas(k, "bb") && c.BB > 0:
				want, role = c.BB, "big blind"
			case c.seatHas(k, "sb") && c.SB > 0:
				want, role = c.SB, "small blind"
			case c.seatHas(k, "dealer") && c.DealerBlind > 0:
				want, role = c.DealerBlind, "dealer blind"
			}
			if want > 0 && stack <= want {
				r.probe("blind-all-in-or-exact")
			}
			want = min64(want, stack)
			if p.Wager != want {
				sig := "blind-amount"
				if p.Wager == 0 {
					sig = "blind-not-posted"
				}
				r.viol("C13", sig+": "+role, fmt.Sprintf("seat %d (%s, stack %d after ante): wager %d, expected %d; blinds sb=%d bb=%d dealer=%d", k, role, stack, p.Wager, want, c.SB, c.BB, c.DealerBlind), i)
			}
			if p.Pot != min64(c.Ante, c.Seats[k].Bankroll) {
				r.viol("C13", "ante-amount", fmt.Sprintf("seat %d pot %d before the first betting round, ante %d", k, p.Pot, c.Ante), i)
			}
			if p.Wager > maxPosted {
				maxPosted = p.Wager
			}
		}
		if gs.Status.CurrentWager != maxPosted {
			r.viol("C13", "wager-to-match-after-blinds", fmt.Sprintf("wager to match %d, largest blind posted %d", gs.Status.CurrentWager, maxPosted), i)
		}
		wantR := c.BB
		if c.BB == 0 {
			wantR = c.DealerBlind // leniency: ante + dealer-blind games
		}
		if gs.Status.PreviousRaiseSize != wantR {
			r.viol("C13", "min-raise-after-blinds", fmt.Sprintf("minimum raise %d, big blind %d", gs.Status.PreviousRaiseSize, c.BB), i)
		}
		if c.find("sb") < 0 {
			r.probe("dead-small-blind")
		}
		if c.DealerBlind > 0 {
			r.probe("dealer-blind")
		}
	}
}
