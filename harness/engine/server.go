package engine

import (
	"encoding/json"
	"fmt"
	"strconv"

	"verif/harness/sim"

	"github.com/weedbox/pokerface"
	"github.com/weedbox/pokerface/pot"
	"github.com/weedbox/pokerface/settlement"
	"github.com/weedbox/pokerface/table"
)

// Operation vocabulary of a trace step.
//
//	actor "driver": ready | ante | blinds | next
//	actor "cur":    fold | check | call | allin | pass | bet x | raise x | pay x   (Game.<Action>, addresses the current player)
//	actor "p<k>":   the same actions on Game.Player(k)
var playerOps = []string{"fold", "check", "call", "allin", "pass", "bet", "raise", "pay"}
var driverOps = []string{"ready", "ante", "blinds", "next"}

func seatOf(actor string) int {
	if len(actor) >= 2 && actor[0] == 'p' {
		k, err := strconv.Atoi(actor[1:])
		if err == nil {
			return k
		}
	}
	return -1
}

func arg0(st *sim.Step) int64 {
	if len(st.Args) > 0 {
		return st.Args[0]
	}
	return 0
}

// applyOp performs one step on an in-memory game.
func applyOp(g pokerface.Game, st *sim.Step) (err error, pan string) {
	defer func() {
		if r := recover(); r != nil {
			pan = fmt.Sprint(r)
		}
	}()
	if st.Actor == "driver" {
		switch st.Op {
		case "ready":
			return g.ReadyForAll(), ""
		case "ante":
			return g.PayAnte(), ""
		case "blinds":
			return g.PayBlinds(), ""
		case "next":
			return g.Next(), ""
		}
		return fmt.Errorf("harness: unknown driver op %q", st.Op), ""
	}
	a := arg0(st)
	if st.Actor == "cur" {
		switch st.Op {
		case "fold":
			return g.Fold(), ""
		case "check":
			return g.Check(), ""
		case "call":
			return g.Call(), ""
		case "allin":
			return g.Allin(), ""
		case "pass":
			return g.Pass(), ""
		case "bet":
			return g.Bet(a), ""
		case "raise":
			return g.Raise(a), ""
		case "pay":
			return g.Pay(a), ""
		}
		return fmt.Errorf("harness: unknown op %q", st.Op), ""
	}
	k := seatOf(st.Actor)
	p := g.Player(k)
	if p == nil {
		return fmt.Errorf("harness: no seat %d", k), ""
	}
	switch st.Op {
	case "fold":
		return p.Fold(), ""
	case "check":
		return p.Check(), ""
	case "call":
		return p.Call(), ""
	case "allin":
		return p.Allin(), ""
	case "pass":
		return p.Pass(), ""
	case "bet":
		return p.Bet(a), ""
	case "raise":
		return p.Raise(a), ""
	case "pay":
		return p.Pay(a), ""
	}
	return fmt.Errorf("harness: unknown op %q", st.Op), ""
}

// applyHop performs one step through table.NativeBackend, which rebuilds a
// fresh game from the state for this single call.
func applyHop(nb *table.NativeBackend, gs *pokerface.GameState, st *sim.Step) (out *pokerface.GameState, err error, pan string) {
	defer func() {
		if r := recover(); r != nil {
			pan = fmt.Sprint(r)
		}
	}()
	a := arg0(st)
	if st.Actor == "driver" {
		switch st.Op {
		case "ready":
			out, err = nb.ReadyForAll(gs)
		case "ante":
			out, err = nb.PayAnte(gs)
		case "blinds":
			out, err = nb.PayBlinds(gs)
		case "next":
			out, err = nb.Next(gs)
		}
		return
	}
	switch st.Op {
	case "fold":
		out, err = nb.Fold(gs)
	case "check":
		out, err = nb.Check(gs)
	case "call":
		out, err = nb.Call(gs)
	case "allin":
		out, err = nb.Allin(gs)
	case "pass":
		out, err = nb.Pass(gs)
	case "bet":
		out, err = nb.Bet(gs, a)
	case "raise":
		out, err = nb.Raise(gs, a)
	case "pay":
		out, err = nb.Pay(gs, a)
	}
	return
}

// hoppable: the backend only offers operations that address the current
// player (and the table operations).
func hoppable(gs *pokerface.GameState, st *sim.Step) bool {
	if st.Actor == "driver" || st.Actor == "cur" {
		return true
	}
	return seatOf(st.Actor) == gs.Status.CurrentPlayer
}

func normalise(gs *pokerface.GameState) {
	gs.UpdatedAt, gs.CreatedAt, gs.GameID = 0, 0, ""
}

func marshalNorm(gs *pokerface.GameState) []byte {
	normalise(gs)
	b, err := json.Marshal(gs)
	if err != nil {
		panic("harness: marshal: " + err.Error())
	}
	return b
}

func fromJSON(b []byte) *pokerface.GameState {
	var gs pokerface.GameState
	if err := json.Unmarshal(b, &gs); err != nil {
		panic("harness: unmarshal: " + err.Error())
	}
	return &gs
}

func cloneStrs(s []string) []string {
	if s == nil {
		return nil
	}
	return append(make([]string, 0, len(s)), s...)
}

// cloneGS is a hand-written deep copy used for the oracles' pre-state (the
// durable state itself always goes through real JSON).
func cloneGS(g *pokerface.GameState) *pokerface.GameState {
	c := *g
	c.Meta.Deck = cloneStrs(g.Meta.Deck)
	c.Meta.CombinationPowers = append(g.Meta.CombinationPowers[:0:0], g.Meta.CombinationPowers...)
	c.Status.Burned = cloneStrs(g.Status.Burned)
	c.Status.Board = cloneStrs(g.Status.Board)
	if g.Status.LastAction != nil {
		la := *g.Status.LastAction
		c.Status.LastAction = &la
	}
	if g.Status.Pots != nil {
		c.Status.Pots = make([]*pot.Pot, len(g.Status.Pots))
		for i, p := range g.Status.Pots {
			q := *p
			q.Contributors = make(map[int]int64, len(p.Contributors))
			for k, v := range p.Contributors {
				q.Contributors[k] = v
			}
			q.Levels = nil
			c.Status.Pots[i] = &q
		}
	}
	c.Players = make([]*pokerface.PlayerState, len(g.Players))
	for i, p := range g.Players {
		q := *p
		q.Positions = cloneStrs(p.Positions)
		q.AllowedActions = cloneStrs(p.AllowedActions)
		q.HoleCards = cloneStrs(p.HoleCards)
		if p.Combination != nil {
			ci := *p.Combination
			ci.Cards = cloneStrs(p.Combination.Cards)
			q.Combination = &ci
		}
		c.Players[i] = &q
	}
	if g.Result != nil {
		r := &settlement.Result{}
		for _, p := range g.Result.Players {
			q := *p
			r.Players = append(r.Players, &q)
		}
		for _, p := range g.Result.Pots {
			q := &settlement.PotResult{Total: p.Total}
			if p.Winners != nil {
				q.Winners = []*settlement.Winner{}
			}
			for _, w := range p.Winners {
				ww := *w
				q.Winners = append(q.Winners, &ww)
			}
			r.Pots = append(r.Pots, q)
		}
		c.Result = r
	}
	return &c
}

// server owns the hand: durable JSON, an optional warm in-memory game, and
// the never-restarted shadow.
type server struct {
	cfg     *Cfg
	nb      *table.NativeBackend
	durable []byte
	warm    pokerface.Game
	shadow  pokerface.Game
	prev    *pokerface.GameState
	version int
}

// delivery is what one delivered step looked like from outside.
type delivery struct {
	st       *sim.Step
	idx      int
	pre      *pokerface.GameState
	post     *pokerface.GameState // live state of the primary after the op: read-only for oracles
	preJSON  []byte
	postJSON []byte
	err      error
	pan      string
	// shadow side (C07)
	shErr     error
	shPan     string
	shJSON    []byte
	hasSh     bool
	neighbour bool // another hand was started in the same process; no operation on this hand
	query     bool // read-only questions were put to the live game object; no operation on this hand
	hopMut    bool // backend modified the state handed to it
	restart   bool // primary was rebuilt from JSON for this op
}

// pinDeck writes the run's deck order into the engine's own slice (not a
// fresh one), so that whatever the engine's deck shares with other hands
// stays shared. No card has been dealt yet at the first wait point.
func pinDeck(gs *pokerface.GameState, cfg *Cfg) {
	if len(gs.Meta.Deck) == len(cfg.Deck) {
		copy(gs.Meta.Deck, cfg.Deck)
	} else {
		gs.Meta.Deck = cloneStrs(cfg.Deck)
	}
}

// startGame creates the hand, checks the shuffle clause of C14 and pins the
// deck. viaBackend creates it through table.NativeBackend.CreateGame (the
// primary then never has an in-memory original). The shadow is a second
// in-memory original that is never rebuilt from JSON.
func startGame(cfg *Cfg, withShadow bool, viaBackend bool) (*server, error, bool) {
	opts := cfg.Options()
	orig := cloneStrs(opts.Deck)
	s := &server{cfg: cfg, nb: table.NewNativeBackend()}
	var gs *pokerface.GameState
	if viaBackend {
		st, err := s.nb.CreateGame(opts)
		if err != nil {
			return nil, err, true
		}
		gs = st
	} else {
		g := pokerface.NewGame(opts)
		if err := g.Start(); err != nil {
			return nil, err, true
		}
		gs = g.GetState()
		s.warm = g
	}
	permOK := isPermutation(orig, gs.Meta.Deck)
	pinDeck(gs, cfg)
	s.durable = marshalNorm(gs)
	s.prev = cloneGS(gs)
	if withShadow {
		sh := pokerface.NewGame(cfg.Options())
		if err := sh.Start(); err != nil {
			return nil, err, true
		}
		pinDeck(sh.GetState(), cfg)
		s.shadow = sh
	}
	return s, nil, permOK
}

func isPermutation(a, b []string) bool {
	if len(a) != len(b) {
		return false
	}
	m := map[string]int{}
	for _, x := range a {
		m[x]++
	}
	for _, x := range b {
		m[x]--
		if m[x] < 0 {
			return false
		}
	}
	return true
}

func (s *server) state() *pokerface.GameState { return s.prev }

// deliver executes one step in the mode recorded in st.Mode (warm | cold |
// hop); the mode is corrected in place to the one actually executed so that
// the trace replays exactly.
func (s *server) deliver(st *sim.Step, idx int) *delivery {
	d := &delivery{st: st, idx: idx, pre: s.prev, preJSON: s.durable}
	if st.Actor == "server" && (st.Op == "neighbour" || st.Op == "query") {
		// not an operation on this hand at all: only the oracles that
		// compare states run on it
		if st.Op == "query" {
			d.query = true
			seat, mask := arg0(st), int64(0)
			if len(st.Args) > 1 {
				mask = st.Args[1]
			}
			if s.warm != nil {
				d.pan = queryGame(s.warm, int(seat), mask)
			}
			if s.shadow != nil {
				queryGame(s.shadow, int(seat), mask)
			}
		} else {
			d.pan = s.neighbour(arg0(st) == 1)
		}
		d.neighbour = true
		if s.warm != nil {
			d.post = s.warm.GetState()
			s.durable = marshalNorm(d.post)
		} else {
			d.post = fromJSON(s.durable)
		}
		d.postJSON = s.durable
		s.prev = cloneGS(d.post)
		if s.shadow != nil {
			d.hasSh = true
			d.shJSON = marshalNorm(s.shadow.GetState())
		}
		return d
	}
	if st.Mode == "hop" && !hoppable(s.prev, st) {
		st.Mode = "cold"
	}
	if st.Mode == "" || (st.Mode == "warm" && s.warm == nil) {
		if s.warm == nil {
			st.Mode = "cold"
		} else {
			st.Mode = "warm"
		}
	}
	switch st.Mode {
	case "hop":
		d.restart = true
		in := fromJSON(s.durable)
		before := marshalNorm(in)
		out, err, pan := applyHop(s.nb, in, st)
		after, _ := json.Marshal(in)
		if string(before) != string(after) {
			d.hopMut = true
		}
		d.err, d.pan = err, pan
		if err == nil && pan == "" && out != nil {
			s.durable = marshalNorm(out)
			d.post = out
		} else {
			d.post = fromJSON(s.durable)
		}
		s.warm = nil
	default:
		if st.Mode == "cold" {
			d.restart = true
			s.warm = pokerface.NewGameFromState(fromJSON(s.durable))
		}
		d.err, d.pan = applyOp(s.warm, st)
		d.post = s.warm.GetState()
		s.durable = marshalNorm(d.post)
	}
	d.postJSON = s.durable
	s.prev = cloneGS(d.post)
	s.version++
	if s.shadow != nil {
		d.hasSh = true
		d.shErr, d.shPan = applyOp(s.shadow, st)
		d.shJSON = marshalNorm(s.shadow.GetState())
	}
	return d
}

// queryGame puts read-only questions of the Game / Player interfaces to a
// live game object, the way a table layer, a bot or a display does between
// two operations. None of them may change anything.
func queryGame(g pokerface.Game, seat int, mask int64) (pan string) {
	defer func() {
		if r := recover(); r != nil {
			pan = fmt.Sprint(r)
		}
	}()
	n := g.GetPlayerCount()
	if n <= 0 {
		return ""
	}
	p := g.Player(((seat % n) + n) % n)
	if p == nil {
		return ""
	}
	if mask&1 != 0 {
		g.GetAvailableActions(p)
	}
	if mask&2 != 0 {
		g.GetAllowedActions(p)
	}
	if mask&4 != 0 {
		g.GetAlivePlayerCount()
		g.GetMovablePlayerCount()
		g.GetPlayers()
		g.GetCurrentPlayer()
	}
	if mask&8 != 0 {
		g.Dealer()
		g.SmallBlind()
		g.BigBlind()
		g.GetEvent()
	}
	if mask&16 != 0 {
		g.GetStateJSON()
	}
	if mask&32 != 0 {
		p.State()
		p.SeatIndex()
		for _, a := range []string{"call", "raise", "check", "pass"} {
			p.CheckAction(a)
		}
		p.CheckPosition("dealer")
		p.CheckPosition("bb")
	}
	return ""
}

// probeClone rebuilds an independent game from the durable state (a cold
// restart on the side), for what-if probes that must not disturb the hand.
func (s *server) probeClone() pokerface.Game {
	return pokerface.NewGameFromState(fromJSON(s.durable))
}

// neighbour plays another complete hand in the same process, the way a table
// server hosts many tables: same options and the same deck order (so that
// anything keyed by cards collides), with this hand's ranking table or - when
// other is set - the other one. Nothing of it may show in this hand.
func (s *server) neighbour(other bool) (pan string) {
	defer func() {
		if r := recover(); r != nil {
			pan = fmt.Sprint(r)
		}
	}()
	playPassiveHand(s.cfg, other)
	return ""
}
