// Package engine is world E: one hand of hold'em played by simulated
// clients over a faulty transport against a stateless server that keeps
// the hand as JSON and may restart or hop through table.NativeBackend
// between any two operations.
package engine

import (
	"verif/harness/sim"

	"github.com/weedbox/pokerface"
	"github.com/weedbox/pokerface/combination"
)

type SeatCfg struct {
	Bankroll  int64    `json:"bankroll"`
	Positions []string `json:"positions"`
}

// Cfg is the drawn configuration of one hand (part of the replay file).
type Cfg struct {
	Seats       []SeatCfg `json:"seats"`
	Ante        int64     `json:"ante"`
	SB          int64     `json:"sb"`
	BB          int64     `json:"bb"`
	DealerBlind int64     `json:"dealer_blind"`
	Limit       string    `json:"limit"`
	Hole        int       `json:"hole"`
	Req         int       `json:"req"`
	Short       bool      `json:"short"`
	Deck        []string  `json:"deck"`                  // pinned order, installed right after Start()
	Invalid     string    `json:"invalid,omitempty"`     // invalid-configuration run: Start() must refuse
	Rig         string    `json:"rig,omitempty"`         // how the deck order was chosen (informational)
	ViaBackend  bool      `json:"via_backend,omitempty"` // the hand is created through table.NativeBackend.CreateGame
	BurnCount   int       `json:"burn_count"`            // option value (the engine burns one card per street whatever it says)
	Twin        bool      `json:"twin,omitempty"`        // C07 determinism clause: twin execution at the end of the run (twin.go)
}

func (c *Cfg) N() int { return len(c.Seats) }

func (c *Cfg) Options() *pokerface.GameOptions {
	o := pokerface.NewStardardGameOptions()
	if c.Short {
		o.CombinationPowers = combination.CombinationPowerShortDeck
	}
	o.Ante = c.Ante
	o.Blind = pokerface.BlindSetting{Dealer: c.DealerBlind, SB: c.SB, BB: c.BB}
	o.Limit = c.Limit
	o.BurnCount = c.BurnCount
	o.HoleCardsCount = c.Hole
	o.RequiredHoleCardsCount = c.Req
	if c.Invalid != "no-deck" {
		if c.Short {
			o.Deck = pokerface.NewShortDeckCards()
		} else {
			o.Deck = pokerface.NewStandardDeckCards()
		}
	}
	for _, s := range c.Seats {
		o.Players = append(o.Players, &pokerface.PlayerSetting{Bankroll: s.Bankroll, Positions: append([]string{}, s.Positions...)})
	}
	return o
}

func (c *Cfg) seatHas(i int, pos string) bool {
	for _, p := range c.Seats[i].Positions {
		if p == pos {
			return true
		}
	}
	return false
}

func (c *Cfg) find(pos string) int {
	for i := range c.Seats {
		if c.seatHas(i, pos) {
			return i
		}
	}
	return -1
}

// DrawCfg draws a configuration, swarm style and boundary-biased.
func DrawCfg(r *sim.RNG) *Cfg {
	c := &Cfg{}
	if r.Chance(0.02) {
		return drawInvalid(r)
	}
	c.Short = r.Chance(0.2)
	c.Hole, c.Req = 2, 0
	switch r.Weighted([]int{70, 15, 7, 4, 4}) {
	case 1:
		c.Hole, c.Req = 4, 2
	case 2:
		c.Hole, c.Req = 2, 2 // every hole card required
	case 3:
		c.Hole, c.Req = 3, 2
	case 4:
		c.Hole, c.Req = 4, 0 // any five of nine
	}
	deckN := 52
	if c.Short {
		deckN = 36
	}
	maxN := (deckN - 8) / c.Hole
	if maxN > 10 {
		maxN = 10
	}
	n := []int{2, 3, 4, 5, 6, 7, 8, 9, 10}[r.Weighted([]int{20, 20, 12, 12, 12, 6, 5, 10, 3})]
	if n > maxN {
		n = maxN
	}
	// blinds
	c.BB = []int64{2, 10, 20, 100, 7, 3}[r.Weighted([]int{10, 35, 20, 10, 15, 10})]
	switch r.Weighted([]int{60, 15, 10, 5, 10}) {
	case 0:
		c.SB = c.BB / 2
	case 1:
		c.SB = c.BB
	case 2:
		c.SB = 1
	case 3:
		c.SB = 0
	case 4:
		c.SB = c.BB/2 + 1
	}
	switch r.Weighted([]int{75, 10, 10, 5}) {
	case 1:
		c.DealerBlind = c.BB / 2
	case 2:
		c.DealerBlind = c.BB * 2
	case 3:
		c.DealerBlind = c.BB
	}
	switch r.Weighted([]int{50, 30, 10, 10}) {
	case 1:
		c.Ante = 1 + r.Int63n(c.BB/2+1)
	case 2:
		c.Ante = c.BB
	case 3:
		c.Ante = c.BB*2 + 1
	}
	if r.Chance(0.07) {
		// ante + dealer-blind game (short-deck style): no small/big blind
		c.SB, c.BB = 0, 0
		c.DealerBlind = []int64{10, 100, 7}[r.Intn(3)]
		c.Ante = []int64{1, 10, 5}[r.Intn(3)]
	}
	if r.Chance(0.03) {
		// ante-only game: no blind of any kind (the blinds step is skipped)
		c.SB, c.BB, c.DealerBlind = 0, 0, 0
		c.Ante = []int64{1, 10, 5, 25}[r.Intn(4)]
	}
	c.Limit = "no"
	if r.Chance(0.25) {
		c.Limit = "pot"
	}
	// positions
	d := r.Intn(n)
	c.Seats = make([]SeatCfg, n)
	for i := range c.Seats {
		c.Seats[i].Positions = []string{}
	}
	if n == 2 {
		c.Seats[d].Positions = []string{"dealer", "sb"}
		c.Seats[(d+1)%n].Positions = []string{"bb"}
		if c.DealerBlind > 0 && c.SB > 0 {
			// a seat holding two paying positions is not covered by any
			// statement; keep heads-up hands unambiguous
			c.DealerBlind = 0
			if c.BB == 0 {
				c.BB, c.SB = 10, 5
			}
		}
	} else {
		c.Seats[d].Positions = []string{"dealer"}
		if !r.Chance(0.12) {
			c.Seats[(d+1)%n].Positions = []string{"sb"}
		}
		c.Seats[(d+2)%n].Positions = []string{"bb"}
		if n > 3 && r.Chance(0.3) {
			c.Seats[(d+3)%n].Positions = []string{"ug"}
		}
	}
	// bankrolls around every forced amount
	forced := []int64{c.Ante, c.SB, c.BB, c.DealerBlind, c.Ante + c.SB, c.Ante + c.BB, c.Ante + c.DealerBlind}
	unit := c.BB
	if unit == 0 {
		unit = c.DealerBlind
	}
	if unit == 0 {
		unit = c.Ante
	}
	if unit == 0 {
		unit = 1
	}
	style := r.Weighted([]int{30, 30, 25, 15}) // deep, mixed, short, tiny
	for i := range c.Seats {
		var b int64
		k := style
		if style == 1 {
			k = []int{0, 2, 3}[r.Intn(3)]
		}
		switch k {
		case 0:
			b = unit * int64(20+r.Intn(200))
			if r.Chance(0.3) {
				b = 10000
			}
		case 2:
			b = unit*int64(1+r.Intn(12)) + int64(r.Intn(3)) - 1
		case 3:
			f := forced[r.Intn(len(forced))]
			b = f + int64(r.Intn(3)) - 1
			if r.Chance(0.2) {
				b = 1
			}
		}
		if b <= 0 {
			b = 1
		}
		c.Seats[i].Bankroll = b
	}
	// a rare but legal layout: the blinds are busted by the ante, so nothing
	// is posted and the first betting round opens with no wager to match
	if n >= 3 && r.Chance(0.05) {
		if c.Ante == 0 {
			c.Ante = 1 + r.Int63n(unit+1)
		}
		if bb := c.find("bb"); bb >= 0 {
			c.Seats[bb].Bankroll = 1 + r.Int63n(c.Ante)
		}
		if sb := c.find("sb"); sb >= 0 {
			if r.Chance(0.5) {
				c.Seats[sb].Positions = []string{}
			} else {
				c.Seats[sb].Bankroll = 1 + r.Int63n(c.Ante)
			}
		}
		if c.DealerBlind > 0 && c.BB > 0 {
			c.DealerBlind = 0
		}
	}
	c.Deck, c.Rig = drawDeck(r, c)
	c.ViaBackend = r.Chance(0.25)
	c.Twin = r.Chance(0.12)
	c.BurnCount = []int{1, 1, 1, 1, 1, 1, 1, 0, 0, 2}[r.Intn(10)]
	return c
}

func drawInvalid(r *sim.RNG) *Cfg {
	c := &Cfg{BB: 10, SB: 5, Limit: "no", Hole: 2, BurnCount: 1}
	n := 2 + r.Intn(4)
	c.Seats = make([]SeatCfg, n)
	for i := range c.Seats {
		c.Seats[i] = SeatCfg{Bankroll: 100 + int64(r.Intn(100)), Positions: []string{}}
	}
	c.Seats[0].Positions = []string{"dealer"}
	if n == 2 {
		c.Seats[0].Positions = []string{"dealer", "sb"}
		c.Seats[1].Positions = []string{"bb"}
	} else {
		c.Seats[1].Positions = []string{"sb"}
		c.Seats[2].Positions = []string{"bb"}
	}
	switch r.Intn(5) {
	case 0:
		c.Invalid = "one-seat"
		c.Seats = c.Seats[:1]
	case 1:
		c.Invalid = "zero-bankroll"
		c.Seats[r.Intn(n)].Bankroll = 0
	case 2:
		c.Invalid = "negative-bankroll"
		c.Seats[r.Intn(n)].Bankroll = -int64(1 + r.Intn(50))
	case 3:
		c.Invalid = "no-dealer"
		c.Seats[0].Positions = []string{"sb"}
		if n > 2 {
			c.Seats[0].Positions = []string{}
		}
	case 4:
		c.Invalid = "no-deck"
	}
	return c
}

// baseDeck is the harness's own deck constructor (it must not share
// anything with the repository's constructors, whose results the engine
// shuffles in place).
func baseDeck(short bool) []string {
	ranks := "23456789TJQKA"
	if short {
		ranks = "6789TJQKA"
	}
	cards := make([]string, 0, 52)
	for _, s := range "SHDC" {
		for _, r := range ranks {
			cards = append(cards, string(s)+string(r))
		}
	}
	return cards
}

func shuffle(r *sim.RNG, cards []string) {
	for i := len(cards) - 1; i > 0; i-- {
		j := r.Intn(i + 1)
		cards[i], cards[j] = cards[j], cards[i]
	}
}

// drawDeck returns the pinned deck order. Rigged orders only choose the
// permutation (to reach ties, which uniform decks almost never give among
// 3+ seats); dealing is always done by the engine: seat i receives
// deck[i*h:(i+1)*h], then burn, flop x3, burn, turn, burn, river.
func drawDeck(r *sim.RNG, c *Cfg) ([]string, string) {
	deck := baseDeck(c.Short)
	shuffle(r, deck)
	n, h := c.N(), c.Hole
	boardPos := []int{n*h + 1, n*h + 2, n*h + 3, n*h + 5, n*h + 7}
	place := func(pos int, card string) {
		for i, x := range deck {
			if x == card {
				deck[i], deck[pos] = deck[pos], deck[i]
				return
			}
		}
	}
	switch r.Weighted([]int{55, 20, 15, 10}) {
	case 1:
		// board plays: a straight on board with at most two cards of a suit
		var boards [][]string
		if c.Short {
			boards = [][]string{{"ST", "HJ", "DQ", "CK", "SA"}, {"S6", "H7", "D8", "C9", "ST"}, {"S9", "H9", "D9", "C9", "SA"}}
		} else {
			boards = [][]string{{"ST", "HJ", "DQ", "CK", "SA"}, {"S2", "H3", "D4", "C5", "S6"}, {"SA", "HA", "DA", "CA", "SK"}, {"S9", "H9", "D9", "C9", "SA"}}
		}
		b := boards[r.Intn(len(boards))]
		for i, p := range r.Perm(5) {
			place(boardPos[i], b[p])
		}
		return deck, "board-plays"
	case 2:
		// twins: k seats hold the same ranks in different suits
		if n >= 2 {
			ranks := "6789TJQKA"
			if !c.Short {
				ranks = "23456789TJQKA"
			}
			r1 := ranks[r.Intn(len(ranks))]
			r2 := ranks[r.Intn(len(ranks))]
			k := 2 + r.Intn(2)
			if k > n {
				k = n
			}
			suits := "SHDC"
			seats := r.Perm(n)[:k]
			used := map[string]bool{}
			for j, s := range seats {
				c1 := string(suits[j%4]) + string(r1)
				c2 := string(suits[(j+1)%4]) + string(r2)
				if r1 == r2 {
					c2 = string(suits[(j+2)%4]) + string(r2)
				}
				if used[c1] || used[c2] || c1 == c2 {
					continue
				}
				used[c1], used[c2] = true, true
				place(s*h, c1)
				place(s*h+1, c2)
			}
		}
		return deck, "twins"
	case 3:
		// monotone-ish board: flush and straight-flush material
		suit := "SHDC"[r.Intn(4)]
		var pick []string
		for _, x := range deck {
			if x[0] == suit && len(pick) < 5 {
				pick = append(pick, x)
			}
		}
		for k, x := range pick {
			place(boardPos[k], x)
		}
		return deck, "suited-board"
	}
	return deck, "uniform"
}
