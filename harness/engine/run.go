package engine

import (
	"fmt"

	"verif/harness/sim"

	"github.com/weedbox/pokerface"
)

var waitEvents = map[string]bool{"ReadyRequested": true, "AnteRequested": true, "BlindsRequested": true,
	"RoundStarted": true, "RoundClosed": true, "GameClosed": true}

var roundIdx = map[string]int{"": 0, "preflop": 1, "flop": 2, "turn": 3, "river": 4}

// track is the harness-side memory of the hand, built only from delivered
// operations and their observed effects.
type track struct {
	round          string
	hadTurn        []bool // had a turn since the wager to match last went up
	turnsSinceAggr int    // turns since the last wager increase or all-in
	lastFull       int64  // size of the last full bet/raise of the round
	lastAny        int64  // size of the last increase of the wager to match of any kind
	lastAct        int64  // size of the last increase made by a bet, raise or all-in action (a completed call excluded)
	lastFullAct    int64  // size of the last full bet/raise made by a betting action: the poker rule (an incomplete all-in and a completed call do not change it)
	blindsChecked  bool
	anteSeen       bool
	closedSeen     bool
}

// run is one simulated (or replayed) hand with its oracles.
type run struct {
	cfg       *Cfg
	srv       *server
	res       *sim.Result
	opt       sim.Options
	on        func(string) bool
	thorough  bool
	replay    bool
	tr        track
	steps     []sim.Step
	dead      bool
	n         int
	seenState map[uint64]int
	twinOn    bool     // C07 twin execution: this run is execution A
	twinA     []string // projection after every step of this run
	seenT     map[uint64]bool
	seenS     map[uint64]bool
}

func newRun(cfg *Cfg, opt sim.Options, replay bool) *run {
	r := &run{cfg: cfg, opt: opt, res: &sim.Result{}, replay: replay, n: cfg.N(),
		seenT: map[uint64]bool{}, seenS: map[uint64]bool{}}
	r.thorough = opt.Tier == "thorough" || replay
	p := opt.Property
	r.on = func(id string) bool { return p == "" || p == id }
	return r
}

func (r *run) viol(prop, sig, detail string, step int) {
	if !r.on(prop) {
		return
	}
	r.res.Violate(prop, sig, detail, step)
}

// classification of a delivered operation at the state it meets
type opClass struct {
	legit bool
	kind  string
	seat  int // acting seat for player ops, -1 for driver ops
}

func contains(xs []string, x string) bool {
	for _, y := range xs {
		if y == x {
			return true
		}
	}
	return false
}

func classify(pre *pokerface.GameState, st *sim.Step) opClass {
	ev := pre.Status.CurrentEvent
	if st.Actor == "driver" {
		want := map[string]string{"ready": "ReadyRequested", "ante": "AnteRequested", "blinds": "BlindsRequested", "next": "RoundClosed"}[st.Op]
		if ev == want {
			return opClass{true, "driver-awaited", -1}
		}
		if ev == "GameClosed" {
			return opClass{false, "driver-after-close", -1}
		}
		return opClass{false, "driver-wrong-phase", -1}
	}
	seat := pre.Status.CurrentPlayer
	if st.Actor != "cur" {
		seat = seatOf(st.Actor)
	}
	if ev == "GameClosed" {
		return opClass{false, "action-after-close", seat}
	}
	if ev != "RoundStarted" {
		return opClass{false, "action-wrong-phase", seat}
	}
	if seat != pre.Status.CurrentPlayer {
		return opClass{false, "action-out-of-turn", seat}
	}
	if seat < 0 || seat >= len(pre.Players) || !contains(pre.Players[seat].AllowedActions, st.Op) {
		return opClass{false, "action-not-offered", seat}
	}
	// a raise request to exactly the wager to match is a call: it is only
	// legitimate when call is offered as well
	if st.Op == "raise" && arg0(st) == pre.Status.CurrentWager && !contains(pre.Players[seat].AllowedActions, "call") {
		return opClass{false, "action-not-offered (raise to the wager to match = call)", seat}
	}
	return opClass{true, "action-offered", seat}
}

func alive(gs *pokerface.GameState) int {
	k := 0
	for _, p := range gs.Players {
		if !p.Fold {
			k++
		}
	}
	return k
}

func movable(gs *pokerface.GameState) int {
	k := 0
	for _, p := range gs.Players {
		if !p.Fold && p.StackSize > 0 {
			k++
		}
	}
	return k
}

// abstract state for the coverage measure
func absState(gs *pokerface.GameState) uint64 {
	h := sim.HashString(gs.Status.CurrentEvent + "/" + gs.Status.Round)
	for _, p := range gs.Players {
		c := uint64(0)
		switch {
		case p.Fold:
			c = 1
		case p.StackSize == 0:
			c = 2
		case p.Wager < gs.Status.CurrentWager:
			c = 3
		default:
			c = 4
		}
		h = sim.Mix(h, c)
	}
	return sim.Mix(h, uint64(len(gs.Status.Pots)), uint64(len(gs.Players)))
}

// observe runs every enabled oracle on one delivery and updates the track.
func (r *run) observe(d *delivery) {
	pre := d.pre
	i := d.idx
	if r.twinOn {
		for len(r.twinA) < i {
			r.twinA = append(r.twinA, "")
		}
		r.twinA = append(r.twinA, projection(d.post))
	}
	if d.neighbour {
		r.res.Steps++
		sig, what := "another-hand-in-the-process-changed-this-hand", "playing another hand in the same process"
		if d.query {
			r.res.Count("fault.read-only-query", 1)
			sig, what = "read-only-query-changed-this-hand", "asking the live game object a read-only question ("+d.st.String()+")"
			if d.pan != "" {
				r.probe("read-only-query-panicked")
			}
		} else {
			r.res.Count("fault.neighbour-hand-started", 1)
			if d.pan != "" {
				r.res.Fault = "neighbour hand panicked: " + d.pan
				r.dead = true
				return
			}
		}
		if string(d.preJSON) != string(d.postJSON) {
			diff := firstDiff(d.postJSON, d.preJSON)
			r.viol("C07", sig, what+" changed this hand: "+diff, i)
			for prop, f := range isolationViews {
				if f(d.pre) != f(d.post) {
					r.viol(prop, sig, what+" changed what this property speaks about: "+f(d.pre)+" -> "+f(d.post), i)
				}
			}
		}
		cl0 := opClass{legit: false, kind: "neighbour", seat: -1}
		r.checkC07(d, i)
		r.checkC14(d, i)
		r.checkC01(d, i)
		_ = cl0
		return
	}
	cl := classify(pre, d.st)
	r.res.Steps++
	changed := string(d.preJSON) != string(d.postJSON)

	// outcome class for counters / coverage
	outc := "refused"
	if d.pan != "" {
		outc = "panic"
	} else if d.err == nil {
		outc = "accepted"
		if !changed {
			outc = "accepted-noop"
		}
	} else if changed {
		outc = "refused-but-changed"
	}
	r.res.Count("op."+cl.kind+"."+outc, 1)
	if d.st.Fault != "" {
		r.res.Count("fault."+d.st.Fault, 1)
	}
	if d.restart {
		r.res.Count("fault.restart-"+d.st.Mode, 1)
	}
	as := absState(pre)
	tk := sim.Mix(as, sim.HashString(d.st.Op+"/"+cl.kind+"/"+outc))
	if !r.seenS[as] {
		r.seenS[as] = true
		r.res.States = append(r.res.States, as)
	}
	if !r.seenT[tk] {
		r.seenT[tk] = true
		r.res.Trans = append(r.res.Trans, tk)
	}
	if r.opt.KeepLog {
		r.res.Log = append(r.res.Log, sim.HashBytes(d.postJSON))
	}

	if d.pan != "" {
		// a panic on an in-scope operation: the awaited step did not
		// succeed (C06) / the illegitimate call was not refused with an
		// error (C04)
		if cl.legit {
			r.viol("C06", "panic: awaited step "+d.st.Op, d.pan, i)
		} else {
			r.viol("C04", "panic: illegitimate "+d.st.Op+" ("+cl.kind+")", d.pan, i)
		}
		r.dead = true
		return
	}

	accepted := cl.legit && d.err == nil

	r.checkC07(d, i)
	r.checkC04(d, cl, changed, i)
	r.checkC06(d, cl, i)
	r.checkC01(d, i)
	r.checkC12(d, cl, accepted, i)
	r.checkC11(d, cl, accepted, i)
	r.checkC05(d, cl, accepted, i)
	r.checkC13(d, cl, accepted, i)
	r.checkC14(d, i)
	r.checkC16(d, cl, accepted, i)
	r.checkC10(d, i)
	r.checkC15(d, i)
	r.checkC02(d, i)

	r.updateTrack(d, cl, accepted)
	r.probes(d, cl, accepted)
}

func (r *run) initialFull() int64 {
	if r.cfg.BB > 0 {
		return r.cfg.BB
	}
	return r.cfg.DealerBlind
}

func (r *run) updateTrack(d *delivery, cl opClass, accepted bool) {
	pre, post := d.pre, d.post
	t := &r.tr
	if post.Status.Round != t.round {
		t.round = post.Status.Round
		t.hadTurn = make([]bool, r.n)
		t.turnsSinceAggr = 0
		t.lastFull, t.lastAny, t.lastAct, t.lastFullAct = 0, 0, 0, 0
		if t.round == "preflop" {
			t.lastFull, t.lastAny, t.lastAct, t.lastFullAct = r.initialFull(), r.initialFull(), r.initialFull(), r.initialFull()
		}
	}
	if t.hadTurn == nil {
		t.hadTurn = make([]bool, r.n)
	}
	if !accepted || cl.seat < 0 {
		return
	}
	s := cl.seat
	wPre, wPost := pre.Status.CurrentWager, post.Status.CurrentWager
	wentAllin := pre.Players[s].StackSize > 0 && post.Players[s].StackSize == 0
	if wPost > wPre {
		inc := wPost - wPre
		t.lastAny = inc
		// a raise request to exactly the wager to match is a call
		isCall := d.st.Op == "call" || (d.st.Op == "raise" && arg0(d.st) == wPre)
		if !isCall {
			t.lastAct = inc
			// an opening bet (nothing wagered yet) defines the size; later
			// increases only when they are full
			if inc >= t.lastFullAct || wPre == 0 {
				t.lastFullAct = inc
			}
		}
		if inc >= t.lastFull {
			t.lastFull = inc
		}
		for k := range t.hadTurn {
			t.hadTurn[k] = false
		}
		t.hadTurn[s] = true
		t.turnsSinceAggr = 0
	} else {
		t.hadTurn[s] = true
		if wentAllin {
			t.turnsSinceAggr = 0
		} else {
			t.turnsSinceAggr++
		}
	}
}

func (r *run) probe(name string) { r.res.Count("probe."+name, 1) }

func fmtState(gs *pokerface.GameState) string {
	s := fmt.Sprintf("ev=%s round=%s cur=%d W=%d R=%d M=%d rp=%d |", gs.Status.CurrentEvent, gs.Status.Round, gs.Status.CurrentPlayer,
		gs.Status.CurrentWager, gs.Status.PreviousRaiseSize, gs.Status.MiniBet, gs.Status.CurrentRoundPot)
	for _, p := range gs.Players {
		f := ""
		if p.Fold {
			f = "F"
		}
		s += fmt.Sprintf(" %d%s[b%d s%d w%d p%d is%d %v]", p.Idx, f, p.Bankroll, p.StackSize, p.Wager, p.Pot, p.InitialStackSize, p.AllowedActions)
	}
	return s
}

// trackAfter returns the strictest reading of the minimum raise that will
// hold once this delivery is accounted for (the oracles run before
// updateTrack).
func (r *run) trackAfter(d *delivery, cl opClass, accepted bool) int64 {
	t := r.tr
	post := d.post
	if post.Status.Round != t.round {
		if post.Status.Round == "preflop" {
			return r.initialFull()
		}
		return 0
	}
	hi := t.lastFull
	if t.lastAny > hi {
		hi = t.lastAny
	}
	if t.lastAct > hi {
		hi = t.lastAct
	}
	if accepted && cl.seat >= 0 {
		if inc := post.Status.CurrentWager - d.pre.Status.CurrentWager; inc > hi {
			hi = inc
		}
	}
	return hi
}

// isolationViews: the part of the state each property speaks about (used to
// attribute a change caused by another hand in the same process).
var isolationViews = map[string]func(*pokerface.GameState) string{
	"C01": func(g *pokerface.GameState) string {
		s := fmt.Sprintf("rp=%d|", g.Status.CurrentRoundPot)
		for _, p := range g.Players {
			s += fmt.Sprintf("%d %d %d %d|", p.Bankroll, p.StackSize, p.Wager, p.Pot)
		}
		for _, p := range g.Status.Pots {
			s += fmt.Sprintf("pot %d|", p.Total)
		}
		return s
	},
	"C16": func(g *pokerface.GameState) string {
		s := ""
		for _, p := range g.Status.Pots {
			s += fmt.Sprintf("pot %d %d %d %v|", p.Level, p.Wager, p.Total, p.Contributors)
		}
		return s
	},
	"C14": func(g *pokerface.GameState) string {
		s := fmt.Sprintf("%v %d %v %v|", g.Meta.Deck, g.Status.CurrentDeckPosition, g.Status.Board, g.Status.Burned)
		for _, p := range g.Players {
			s += fmt.Sprintf("%v|", p.HoleCards)
		}
		return s
	},
	"C10": func(g *pokerface.GameState) string {
		s := ""
		for _, p := range g.Players {
			if p.Combination != nil {
				s += fmt.Sprintf("%s %v %d|", p.Combination.Type, p.Combination.Cards, p.Combination.Power)
			}
		}
		return s
	},
	"C02": func(g *pokerface.GameState) string {
		if g.Result == nil {
			return ""
		}
		s := ""
		for _, p := range g.Result.Players {
			s += fmt.Sprintf("%d %d %d|", p.Idx, p.Final, p.Changed)
		}
		return s
	},
	"C04": offersView, "C06": offersView, "C11": offersView, "C05": offersView,
	"C12": func(g *pokerface.GameState) string {
		return fmt.Sprintf("W=%d R=%d M=%d", g.Status.CurrentWager, g.Status.PreviousRaiseSize, g.Status.MiniBet)
	},
}

func offersView(g *pokerface.GameState) string {
	s := fmt.Sprintf("%s/%s cur=%d|", g.Status.CurrentEvent, g.Status.Round, g.Status.CurrentPlayer)
	for _, p := range g.Players {
		s += fmt.Sprintf("%v %v %v|", p.AllowedActions, p.Acted, p.Fold)
	}
	return s
}
