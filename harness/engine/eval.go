package engine

import "sort"

// Independent five-card evaluator (reference for C10/C02). It shares no
// code with pokerface/combination: category + tie-break vector, compared
// lexicographically; the ace plays low only in the five-high straight.

const (
	catHigh = iota
	catPair
	catTwoPair
	catTrips
	catStraight
	catFlush
	catFull
	catQuads
	catStraightFlush
)

var catName = []string{"HighCard", "Pair", "TwoPair", "ThreeOfAKind", "Straight", "Flush", "FullHouse", "FourOfAKind", "StraightFlush"}

var rankOf = map[byte]int{'2': 2, '3': 3, '4': 4, '5': 5, '6': 6, '7': 7, '8': 8, '9': 9, 'T': 10, 'J': 11, 'Q': 12, 'K': 13, 'A': 14}

type handVal struct {
	cat   int   // category constant
	order int   // position of the category in the variant's ranking
	tb    []int // tie-break ranks
}

// less reports a < b in the poker order of the variant.
func (a handVal) less(b handVal) bool {
	if a.order != b.order {
		return a.order < b.order
	}
	for i := 0; i < len(a.tb) && i < len(b.tb); i++ {
		if a.tb[i] != b.tb[i] {
			return a.tb[i] < b.tb[i]
		}
	}
	return false
}

func catOrder(cat int, short bool) int {
	if short {
		// flush above full house
		switch cat {
		case catFlush:
			return catFull
		case catFull:
			return catFlush
		}
	}
	return cat
}

// evalFive evaluates exactly five cards like "SA".
func evalFive(cards []string, short bool) handVal {
	ranks := make([]int, 0, 5)
	flush := true
	for _, c := range cards {
		ranks = append(ranks, rankOf[c[1]])
		if c[0] != cards[0][0] {
			flush = false
		}
	}
	sort.Sort(sort.Reverse(sort.IntSlice(ranks)))
	cnt := map[int]int{}
	for _, r := range ranks {
		cnt[r]++
	}
	type grp struct{ n, r int }
	groups := make([]grp, 0, 5)
	for r, n := range cnt {
		groups = append(groups, grp{n, r})
	}
	sort.Slice(groups, func(i, j int) bool {
		if groups[i].n != groups[j].n {
			return groups[i].n > groups[j].n
		}
		return groups[i].r > groups[j].r
	})
	tb := make([]int, 0, 5)
	for _, g := range groups {
		tb = append(tb, g.r)
	}
	straight, high := false, 0
	if len(groups) == 5 {
		if ranks[0]-ranks[4] == 4 {
			straight, high = true, ranks[0]
		} else if ranks[0] == 14 && ranks[1] == 5 && ranks[4] == 2 {
			straight, high = true, 5
		}
	}
	cat := catHigh
	switch {
	case straight && flush:
		cat, tb = catStraightFlush, []int{high}
	case groups[0].n == 4:
		cat = catQuads
	case groups[0].n == 3 && groups[1].n == 2:
		cat = catFull
	case flush:
		cat = catFlush
	case straight:
		cat, tb = catStraight, []int{high}
	case groups[0].n == 3:
		cat = catTrips
	case groups[0].n == 2 && groups[1].n == 2:
		cat = catTwoPair
	case groups[0].n == 2:
		cat = catPair
	}
	return handVal{cat: cat, order: catOrder(cat, short), tb: tb}
}

// isShortAceLow reports the A-9-8-7-6 rank pattern whose class C03 leaves
// open in the short deck.
func isShortAceLow(cards []string) bool {
	if len(cards) != 5 {
		return false
	}
	m := map[int]bool{}
	for _, c := range cards {
		m[rankOf[c[1]]] = true
	}
	return len(m) == 5 && m[14] && m[9] && m[8] && m[7] && m[6]
}

// selections enumerates the admissible five-card selections: any five of
// hole+board when req == 0, else exactly req hole cards plus 5-req board
// cards.
func selections(hole, board []string, req int) [][]string {
	var out [][]string
	if req == 0 {
		all := append(append([]string{}, hole...), board...)
		choose(all, 5, func(s []string) { out = append(out, append([]string{}, s...)) })
		return out
	}
	choose(hole, req, func(h []string) {
		hh := append([]string{}, h...)
		choose(board, 5-req, func(b []string) {
			out = append(out, append(append([]string{}, hh...), b...))
		})
	})
	return out
}

func choose(items []string, k int, f func([]string)) {
	if k > len(items) || k < 0 {
		return
	}
	idx := make([]int, k)
	for i := range idx {
		idx[i] = i
	}
	buf := make([]string, k)
	for {
		for i, x := range idx {
			buf[i] = items[x]
		}
		f(buf)
		i := k - 1
		for i >= 0 && idx[i] == len(items)-k+i {
			i--
		}
		if i < 0 {
			return
		}
		idx[i]++
		for j := i + 1; j < k; j++ {
			idx[j] = idx[j-1] + 1
		}
	}
}
