package engine

import (
	"fmt"

	"verif/harness/sim"

	"github.com/weedbox/pokerface"
)

// ---- C07 ------------------------------------------------------------------

func (r *run) checkC07(d *delivery, i int) {
	if !r.on("C07") {
		return
	}
	if d.hopMut {
		r.viol("C07", "backend-modified-input-state", fmt.Sprintf("NativeBackend.%s changed the state handed to it", d.st.Op), i)
	}
	if !d.hasSh {
		return
	}
	if d.shPan != "" {
		r.viol("C07", "shadow-panic", d.shPan, i)
		r.dead = true
		return
	}
	if (d.err == nil) != (d.shErr == nil) {
		r.viol("C07", "resumed-game-differs: error/no-error", fmt.Sprintf("step %s (%s): resumed game returned %v, never-restarted game returned %v", d.st, d.st.Mode, d.err, d.shErr), i)
		return
	}
	if string(d.postJSON) != string(d.shJSON) {
		r.viol("C07", "resumed-game-differs: state", fmt.Sprintf("step %s (%s): %s", d.st, d.st.Mode, firstDiff(d.postJSON, d.shJSON)), i)
	}
}

func firstDiff(a, b []byte) string {
	k := 0
	for k < len(a) && k < len(b) && a[k] == b[k] {
		k++
	}
	lo := k - 60
	if lo < 0 {
		lo = 0
	}
	ha, hb := k+60, k+60
	if ha > len(a) {
		ha = len(a)
	}
	if hb > len(b) {
		hb = len(b)
	}
	return fmt.Sprintf("resumed ...%s... vs original ...%s...", a[lo:ha], b[lo:hb])
}

// ---- C04 ------------------------------------------------------------------

func offeredSeats(gs *pokerface.GameState) []int {
	var s []int
	for k, p := range gs.Players {
		if len(p.AllowedActions) > 0 {
			s = append(s, k)
		}
	}
	return s
}

func (r *run) checkC04(d *delivery, cl opClass, changed bool, i int) {
	if !r.on("C04") {
		return
	}
	pre, post := d.pre, d.post
	n := len(post.Players)
	// refusal without effect
	if !cl.legit {
		if d.err == nil {
			r.viol("C04", fmt.Sprintf("refusal/no-error: op=%s class=%s", d.st.Op, cl.kind),
				fmt.Sprintf("%s at %s returned nil (state %s)", d.st, fmtState(pre), map[bool]string{true: "changed", false: "unchanged"}[changed]), i)
		}
		if changed {
			r.viol("C04", fmt.Sprintf("refusal/state-changed: op=%s class=%s", d.st.Op, cl.kind),
				fmt.Sprintf("%s at %s changed the state: %s", d.st, fmtState(pre), firstDiff(d.postJSON, d.preJSON)), i)
		}
	}
	// exactly one seat is offered actions during a betting round
	if post.Status.CurrentEvent == "RoundStarted" {
		os := offeredSeats(post)
		if len(os) != 1 || os[0] != post.Status.CurrentPlayer {
			r.viol("C04", "offered-seats", fmt.Sprintf("after %s seats offered actions %v, current player %d", d.st, os, post.Status.CurrentPlayer), i)
		}
		// folded and all-in seats are merely asked to pass
		if cur := post.Status.CurrentPlayer; cur >= 0 && cur < n {
			p := post.Players[cur]
			if (p.Fold || p.StackSize == 0) && !(len(p.AllowedActions) == 1 && p.AllowedActions[0] == "pass") {
				r.viol("C04", "folded-or-all-in-seat-offered-more-than-pass", fmt.Sprintf("seat %d (folded=%v, stack %d) is offered %v: %s", cur, p.Fold, p.StackSize, p.AllowedActions, fmtState(post)), i)
			}
		}
	}
	if !cl.legit || d.err != nil {
		return
	}
	// first to act when a betting round opens
	if d.st.Actor == "driver" && d.st.Op == "ready" && post.Status.CurrentEvent == "RoundStarted" {
		dealer, bb := r.cfg.find("dealer"), r.cfg.find("bb")
		want := (dealer + 1) % n
		if post.Status.Round == "preflop" && bb >= 0 {
			want = (bb + 1) % n
		}
		if post.Status.CurrentPlayer != want {
			r.viol("C04", "first-to-act", fmt.Sprintf("%s opens with seat %d to act, expected %d (dealer %d, bb %d)", post.Status.Round, post.Status.CurrentPlayer, want, dealer, bb), i)
		}
		if n == 2 {
			r.probe("heads-up-open")
		}
	}
	// the turn passes seat by seat clockwise
	if cl.seat >= 0 && post.Status.CurrentEvent == "RoundStarted" {
		want := (cl.seat + 1) % n
		if post.Status.CurrentPlayer != want {
			r.viol("C04", "turn-order", fmt.Sprintf("after %s by seat %d the turn went to seat %d, expected %d", d.st.Op, cl.seat, post.Status.CurrentPlayer, want), i)
		}
		if post.Players[want].Fold || post.Players[want].StackSize == 0 {
			r.probe("pass-only-seat-on-turn")
		}
	}
}

// ---- C06 ------------------------------------------------------------------

func (r *run) checkC06(d *delivery, cl opClass, i int) {
	if !r.on("C06") {
		return
	}
	pre, post := d.pre, d.post
	if !waitEvents[post.Status.CurrentEvent] {
		r.viol("C06", "not-at-a-wait-point", fmt.Sprintf("after %s the hand is at %q", d.st, post.Status.CurrentEvent), i)
	}
	if roundIdx[post.Status.Round] < roundIdx[pre.Status.Round] || roundIdx[post.Status.Round] > roundIdx[pre.Status.Round]+1 {
		r.viol("C06", "street-order", fmt.Sprintf("round went %q -> %q on %s", pre.Status.Round, post.Status.Round, d.st), i)
	}
	// "the single thing it is waiting for": during a betting round that is an
	// action from exactly one seat, the player to act
	if post.Status.CurrentEvent == "RoundStarted" {
		if os := offeredSeats(post); len(os) != 1 || os[0] != post.Status.CurrentPlayer {
			r.viol("C06", "not-a-single-awaited-step", fmt.Sprintf("after %s seats %v are offered actions, player to act %d: %s", d.st, os, post.Status.CurrentPlayer, fmtState(post)), i)
		}
	}
	if _, ok := roundIdx[post.Status.Round]; !ok {
		r.viol("C06", "street-order", fmt.Sprintf("unknown round %q", post.Status.Round), i)
	}
	if (post.Result != nil) != (post.Status.CurrentEvent == "GameClosed") {
		r.viol("C06", "result-iff-closed", fmt.Sprintf("event %s, result present: %v", post.Status.CurrentEvent, post.Result != nil), i)
	}
	if pre.Status.CurrentEvent == "GameClosed" && (d.err == nil || string(d.preJSON) != string(d.postJSON)) {
		r.viol("C06", "closed-hand-accepted-operation: "+d.st.Op, fmt.Sprintf("%s on a closed hand: err=%v, state changed=%v", d.st, d.err, string(d.preJSON) != string(d.postJSON)), i)
	}
	// no state may ever repeat after an accepted operation: a repeated
	// state is a cycle in the reachable graph, i.e. an infinite path
	if cl.legit && d.err == nil && pre.Status.CurrentEvent != "GameClosed" {
		h := sim.HashBytes(d.postJSON)
		if r.seenState == nil {
			r.seenState = map[uint64]int{}
		}
		if prev, ok := r.seenState[h]; ok {
			r.viol("C06", "state-repeated (a cycle: the hand need not finish)", fmt.Sprintf("the state after step %d (%s) is identical to the state after step %d: %s", i, d.st, prev, fmtState(post)), i)
		}
		r.seenState[h] = i
	}
	if pre.Status.CurrentEvent == "GameClosed" && post.Status.CurrentEvent != "GameClosed" {
		r.viol("C06", "left-closed-state", fmt.Sprintf("%s moved a closed hand to %s", d.st, post.Status.CurrentEvent), i)
	}
	// the awaited step always succeeds
	if cl.legit && d.err != nil {
		sure := true
		if d.st.Op == "raise" || d.st.Op == "bet" {
			// an offered bet/raise may still be refused for its amount; it
			// must succeed for amounts that are plainly valid
			a := arg0(d.st)
			w, rr, m := pre.Status.CurrentWager, pre.Status.PreviousRaiseSize, pre.Status.MiniBet
			if d.st.Op == "raise" {
				sure = a >= w+rr && a >= w+m && a > w
			} else {
				sure = a >= m && a > 0
			}
		}
		if sure {
			r.viol("C06", "awaited-step-failed: "+d.st.Op, fmt.Sprintf("%s at %s returned %v", d.st, fmtState(pre), d.err), i)
		}
	}
}

// ---- C05 ------------------------------------------------------------------

func (r *run) checkC05(d *delivery, cl opClass, accepted bool, i int) {
	if !r.on("C05") {
		return
	}
	pre, post := d.pre, d.post
	n := len(post.Players)
	t := &r.tr
	evPre, evPost := pre.Status.CurrentEvent, post.Status.CurrentEvent

	if accepted && cl.seat >= 0 {
		// what the track will be after this turn
		wUp := post.Status.CurrentWager > pre.Status.CurrentWager
		wentAllin := pre.Players[cl.seat].StackSize > 0 && post.Players[cl.seat].StackSize == 0
		had := append([]bool{}, t.hadTurn...)
		turns := t.turnsSinceAggr + 1
		if wUp {
			for k := range had {
				had[k] = false
			}
			turns = 0
		} else if wentAllin {
			turns = 0
		}
		if cl.seat < len(had) {
			had[cl.seat] = true
		}
		// liveness: within one lap after the last increase or all-in
		if turns >= n && evPost == "RoundStarted" {
			r.viol("C05", "round-not-closed-after-a-lap", fmt.Sprintf("%d turns since the last wager increase/all-in, %d seats, still open: %s", turns, n, fmtState(post)), i)
		}
		// one player left: ends at once
		if alive(post) == 1 && evPost != "RoundClosed" {
			r.viol("C05", "one-player-left-not-closed", fmt.Sprintf("after %s one non-folded seat remains but event is %s", d.st, evPost), i)
		}
		// safety at closing
		if evPost == "RoundClosed" && alive(post) >= 2 {
			// the wager to match is the highest wager on the table (not
			// the engine's own field)
			toMatch := post.Status.CurrentWager
			for _, p := range post.Players {
				if p.Wager > toMatch {
					toMatch = p.Wager
				}
			}
			for k, p := range post.Players {
				if p.Fold || p.StackSize == 0 {
					continue
				}
				if p.Wager < toMatch {
					r.viol("C05", "closed-with-unmatched-wager", fmt.Sprintf("round closed by %s while seat %d has %d < %d: %s", d.st, k, p.Wager, toMatch, fmtState(post)), i)
				}
				if k < len(had) && !had[k] {
					r.viol("C05", "closed-before-everyone-had-a-turn", fmt.Sprintf("round closed by %s while seat %d had no turn since the last increase: %s", d.st, k, fmtState(post)), i)
				}
			}
			r.probe("round-closed-by-betting")
		}
	}
	// the betting round closing without any turn (opened and closed by the ready step)
	if accepted && d.st.Actor == "driver" && d.st.Op == "ready" && evPost == "RoundClosed" && alive(post) >= 2 {
		for k, p := range post.Players {
			if !p.Fold && p.StackSize > 0 && p.Wager < post.Status.CurrentWager {
				r.viol("C05", "closed-with-unmatched-wager", fmt.Sprintf("round closed at opening while seat %d has %d < %d: %s", k, p.Wager, post.Status.CurrentWager, fmtState(post)), i)
			}
		}
		if movable(post) >= 2 {
			r.viol("C05", "closed-before-everyone-had-a-turn", fmt.Sprintf("round closed at opening with %d seats able to act: %s", movable(post), fmtState(post)), i)
		}
	}
	if accepted && d.st.Actor == "driver" && d.st.Op == "next" && evPre == "RoundClosed" {
		al := alive(pre)
		if al == 1 {
			r.probe("ended-by-folds")
			if evPost != "GameClosed" {
				r.viol("C05", "one-player-left-hand-not-ended", fmt.Sprintf("next with one non-folded seat led to %s", evPost), i)
			}
			if len(post.Status.Board) != len(pre.Status.Board) {
				r.viol("C05", "cards-dealt-after-everyone-folded", fmt.Sprintf("board grew from %d to %d cards", len(pre.Status.Board), len(post.Status.Board)), i)
			}
			return
		}
		if pre.Status.Round == "river" {
			if evPost != "GameClosed" {
				r.viol("C05", "river-next-not-closing", fmt.Sprintf("next after the river led to %s", evPost), i)
			}
		} else {
			if roundIdx[post.Status.Round] != roundIdx[pre.Status.Round]+1 {
				r.viol("C05", "street-not-dealt", fmt.Sprintf("next went %s -> %s", pre.Status.Round, post.Status.Round), i)
			}
			mv := movable(pre)
			if mv < 2 {
				r.probe("all-in-run-out")
				if evPost != "RoundClosed" {
					r.viol("C05", "betting-opened-with-fewer-than-two-stacks", fmt.Sprintf("%d seats with chips, next led to %s: %s", mv, evPost, fmtState(post)), i)
				}
			} else if evPost != "ReadyRequested" && evPost != "RoundStarted" {
				r.viol("C05", "betting-round-skipped", fmt.Sprintf("%d seats with chips, next led to %s: %s", mv, evPost, fmtState(post)), i)
			}
		}
		if evPost == "GameClosed" && al >= 2 {
			r.probe("showdown")
			if len(post.Status.Board) != 5 {
				r.viol("C05", "showdown-without-full-board", fmt.Sprintf("showdown among %d seats with %d board cards", al, len(post.Status.Board)), i)
			}
		}
	}
}
