package engine

import (
	"encoding/json"
	"fmt"
	"sort"

	"verif/harness/sim"

	"github.com/weedbox/pokerface/pot"
	"github.com/weedbox/pokerface/settlement"
)

// World P: the pot and settlement packages used directly by several callers
// whose API calls the simulator interleaves (two tables of one server
// settling at the same time, a caller holding on to published pots while
// another one publishes). Each caller runs the fixed script
//
//	NewLevelList, AddContributor x n, GetPots, NewResult, AddPlayer x n,
//	AddPot x k, UpdateScore x n, Calculate, read
//
// on its own vectors (contribution, fold, strength per seat, shaped like the
// ones that arise from play: the largest contributor has not folded). A
// trace step advances one caller by one call. Oracles: the C16 predicates on
// every caller's published pots (also re-read after everybody else has
// published), the C02 reference settlement on every caller's result, and
// equality with the same script run alone.

type PCaller struct {
	Contrib []int64 `json:"contrib"`
	Fold    []bool  `json:"fold"`
	Score   []int   `json:"score"`
	Bank    []int64 `json:"bankroll"`
	// seats whose contribution is reported a second time (duplicate delivery
	// of the same report) before the pots are built; a repeat must be an
	// idempotent overwrite
	Dup []int `json:"dup,omitempty"`
}

type PCfg struct {
	Callers []PCaller `json:"callers"`
}

type pState struct {
	c    *PCaller
	pc   int
	ll   *pot.LevelList
	pots []*pot.Pot
	res  *settlement.Result
	n    int
	done bool
}

// advance performs the next API call of the caller's script.
func (p *pState) advance() (op string) {
	n := p.n
	d := len(p.c.Dup)
	k := p.pc
	p.pc++
	switch {
	case k == 0:
		p.ll = pot.NewLevelList()
		return "NewLevelList"
	case k <= n:
		i := k - 1
		p.ll.AddContributor(p.c.Contrib[i], i, p.c.Fold[i])
		return "AddContributor"
	case k <= n+d:
		i := p.c.Dup[k-n-1]
		if i >= 0 && i < n {
			p.ll.AddContributor(p.c.Contrib[i], i, p.c.Fold[i])
		}
		return "AddContributor(duplicate)"
	}
	k -= d
	switch {
	case k == n+1:
		p.pots = p.ll.GetPots()
		return "GetPots"
	case k == n+2:
		p.res = settlement.NewResult()
		return "NewResult"
	case k <= 2*n+2:
		i := k - (n + 3)
		p.res.AddPlayer(i, p.c.Bank[i])
		return "AddPlayer"
	case k == 2*n+3:
		for _, q := range p.pots {
			p.res.AddPot(q.Total, q.Levels)
		}
		return "AddPot"
	case k <= 3*n+3:
		i := k - (2*n + 4)
		sc := p.c.Score[i]
		if p.c.Fold[i] {
			sc = 0
		}
		p.res.UpdateScore(i, sc)
		return "UpdateScore"
	case k == 3*n+4:
		p.res.Calculate()
		return "Calculate"
	default:
		p.done = true
		return "read"
	}
}

func drawPCfg(r *sim.RNG) *PCfg {
	cfg := &PCfg{}
	k := 2 + r.Intn(2)
	for c := 0; c < k; c++ {
		n := 2 + r.Intn(6)
		pc := PCaller{Contrib: make([]int64, n), Fold: make([]bool, n), Score: make([]int, n), Bank: make([]int64, n)}
		vals := []int64{0, 1, 3, 5, 10, 10, 15, 20, 37, 100, 100, 333}
		top, topAt := int64(-1), 0
		for i := 0; i < n; i++ {
			pc.Contrib[i] = vals[r.Intn(len(vals))]
			if r.Chance(0.3) {
				pc.Contrib[i] += int64(r.Intn(7))
			}
			pc.Fold[i] = r.Chance(0.35)
			pc.Score[i] = 1 + r.Intn(4) // few values: ties are common
			pc.Bank[i] = pc.Contrib[i] + int64(r.Intn(500))
			if pc.Contrib[i] > top {
				top, topAt = pc.Contrib[i], i
			}
		}
		pc.Fold[topAt] = false
		if top == 0 {
			pc.Contrib[topAt] = 10
			pc.Bank[topAt] += 10
		}
		if r.Chance(0.3) {
			for j := 1 + r.Intn(2); j > 0; j-- {
				pc.Dup = append(pc.Dup, r.Intn(n))
			}
		}
		cfg.Callers = append(cfg.Callers, pc)
	}
	return cfg
}

type PWorld struct{}

func (PWorld) Name() string { return "P" }

func (PWorld) Components() map[string]string {
	return map[string]string{
		"pokerface/pot (LevelList.AddContributor / GetPots), pokerface/settlement (Result.AddPlayer / AddPot / UpdateScore / Calculate)": "real, called directly",
		"the callers (tables of one server process) and the order in which their API calls interleave":                                   "simulated",
	}
}

func (w PWorld) Generate(subseed uint64, o sim.Options) *sim.Result {
	rng := sim.NewRNG(subseed)
	cfg := drawPCfg(rng)
	cj, _ := json.Marshal(cfg)
	c := &sim.Case{World: "P", Property: o.Property, SubSeed: subseed, Config: cj}
	// the schedule: which caller makes its next call
	remaining := make([]int, len(cfg.Callers))
	total := 0
	for i, pc := range cfg.Callers {
		remaining[i] = 3*len(pc.Contrib) + 6 + len(pc.Dup)
		total += remaining[i]
	}
	style := rng.Intn(3) // 0 fine-grained interleaving, 1 coarse blocks, 2 one after the other
	cur := 0
	for total > 0 {
		switch style {
		case 0:
			cur = rng.Intn(len(remaining))
		case 1:
			if rng.Chance(0.25) {
				cur = rng.Intn(len(remaining))
			}
		case 2:
		}
		for remaining[cur] == 0 {
			cur = (cur + 1) % len(remaining)
		}
		c.Steps = append(c.Steps, sim.Step{Actor: fmt.Sprintf("c%d", cur), Op: "call"})
		remaining[cur]--
		total--
	}
	res := w.Replay(c, o)
	res.Case = c
	if style != 2 {
		res.Count("fault.interleaved-callers", 1)
		res.Nontrivial = true
	}
	return res
}

func (w PWorld) Replay(c *sim.Case, o sim.Options) *sim.Result {
	res := &sim.Result{}
	var cfg PCfg
	if err := json.Unmarshal(c.Config, &cfg); err != nil || len(cfg.Callers) == 0 {
		res.Fault = "bad config"
		return res
	}
	on := func(id string) bool { return o.Property == "" || o.Property == id }
	viol := func(prop, sig, detail string, step int) {
		if on(prop) {
			res.Violate(prop, sig, detail, step)
		}
	}
	st := make([]*pState, len(cfg.Callers))
	for i := range cfg.Callers {
		pc := &cfg.Callers[i]
		if len(pc.Fold) != len(pc.Contrib) || len(pc.Score) != len(pc.Contrib) || len(pc.Bank) != len(pc.Contrib) {
			res.Fault = "bad caller"
			return res
		}
		st[i] = &pState{c: pc, n: len(pc.Contrib)}
	}
	var pan string
	func() {
		defer func() {
			if x := recover(); x != nil {
				pan = fmt.Sprint(x)
			}
		}()
		for i := range c.Steps {
			k := seatOfCaller(c.Steps[i].Actor)
			if k < 0 || k >= len(st) || st[k].done {
				continue
			}
			op := st[k].advance()
			res.Steps++
			h := sim.Mix(sim.HashString(op), uint64(k), uint64(len(st)))
			res.Trans = append(res.Trans, h)
		}
		// drain: unfinished scripts complete in caller order
		for _, p := range st {
			for !p.done {
				p.advance()
				res.Steps++
			}
		}
	}()
	if pan != "" {
		viol("C02", "panic", pan, len(c.Steps))
		viol("C16", "panic", pan, len(c.Steps))
		return res
	}
	// what every caller holds is frozen (as JSON) before anything else is
	// computed: the reference runs below use the same packages and must not be
	// able to disturb, or repair, what is being judged
	potsJSON := make([][]byte, len(st))
	resJSON := make([][]byte, len(st))
	for k, p := range st {
		potsJSON[k], _ = json.Marshal(p.pots)
		resJSON[k], _ = json.Marshal(p.res)
	}
	for k, p := range st {
		who := fmt.Sprintf("caller %d", k)
		if on("C16") {
			var pots []*pot.Pot
			json.Unmarshal(potsJSON[k], &pots)
			checkPotsDirect(pots, p.c, who, func(sig, d string) { viol("C16", sig, d, len(c.Steps)) })
		}
		if on("C02") {
			var r2 settlement.Result
			json.Unmarshal(resJSON[k], &r2)
			checkResultDirect(&r2, p.c, who, res, func(sig, d string) { viol("C02", sig, d, len(c.Steps)) })
		}
	}
	for k, p := range st {
		// solo reference: the same script alone
		solo := &pState{c: p.c, n: p.n}
		for !solo.done {
			solo.advance()
		}
		who := fmt.Sprintf("caller %d", k)
		if on("C16") {
			b, _ := json.Marshal(solo.pots)
			if string(potsJSON[k]) != string(b) {
				viol("C16", "interleaved-callers: published pots differ from the same calls made alone", fmt.Sprintf("%s: %s vs alone %s", who, potsJSON[k], b), len(c.Steps))
			}
		}
		if on("C02") {
			b, _ := json.Marshal(solo.res)
			if string(resJSON[k]) != string(b) {
				viol("C02", "interleaved-callers: result differs from the same calls made alone", fmt.Sprintf("%s: %s vs alone %s", who, resJSON[k], b), len(c.Steps))
			}
		}
	}
	return res
}

func seatOfCaller(a string) int {
	if len(a) >= 2 && a[0] == 'c' {
		k := 0
		for _, ch := range a[1:] {
			if ch < '0' || ch > '9' {
				return -1
			}
			k = k*10 + int(ch-'0')
		}
		return k
	}
	return -1
}

func (w PWorld) Simplify(c *sim.Case) []*sim.Case {
	var cfg PCfg
	if json.Unmarshal(c.Config, &cfg) != nil {
		return nil
	}
	var out []*sim.Case
	if len(cfg.Callers) > 2 {
		k := cfg
		k.Callers = cfg.Callers[:len(cfg.Callers)-1]
		x := c.Clone()
		x.Config, _ = json.Marshal(&k)
		out = append(out, x)
	}
	return out
}

// checkPotsDirect: the C16 predicates on pots published from given vectors.
func checkPotsDirect(pots []*pot.Pot, pc *PCaller, who string, bad func(sig, detail string)) {
	n := len(pc.Contrib)
	c := pc.Contrib
	total := int64(0)
	for _, x := range c {
		total += x
	}
	prev, sum := int64(0), int64(0)
	var prevEl []int
	for k, p := range pots {
		if p.Level <= prev && !(k == 0 && p.Level == 0) {
			bad("levels-not-increasing", fmt.Sprintf("%s pot %d level %d after %d", who, k, p.Level, prev))
		}
		want := int64(0)
		var el []int
		for s := 0; s < n; s++ {
			a := min64(c[s], p.Level) - min64(c[s], prev)
			if a > 0 {
				want += a
			}
			if !pc.Fold[s] && c[s] >= p.Level {
				el = append(el, s)
			}
		}
		if p.Total != want {
			bad("pot-total", fmt.Sprintf("%s pot %d (level %d..%d) total %d, put in %d; contributions=%v", who, k, prev, p.Level, p.Total, want, c))
		}
		var listed []int
		for s := 0; s < n; s++ {
			amt, ok := p.Contributors[s]
			if !ok {
				continue
			}
			if pc.Fold[s] {
				if amt != c[s] || c[s] < prev {
					bad("folded-seat-listed-in-unexpected-form", fmt.Sprintf("%s pot %d lists folded seat %d with %d, its contribution is %d", who, k, s, amt, c[s]))
				} else {
					bad("folded-seat-listed-as-pot-contributor (with its whole contribution, in pots up to its own level)", fmt.Sprintf("%s pot %d lists folded seat %d (with %d)", who, k, s, amt))
				}
				continue
			}
			listed = append(listed, s)
			if amt != p.Level-prev {
				bad("eligible-amount", fmt.Sprintf("%s pot %d lists seat %d with %d, per-pot amount is %d", who, k, s, amt, p.Level-prev))
			}
		}
		sort.Ints(listed)
		if !(k == 0 && p.Level == 0) && !sameInts(listed, el) {
			bad("eligible-set", fmt.Sprintf("%s pot %d (level %d) lists non-folded seats %v, those who reached it are %v; contributions=%v fold=%v", who, k, p.Level, listed, el, c, pc.Fold))
		}
		if k > 0 && len(prevEl) > 0 && !(len(el) < len(prevEl)) {
			bad("eligible-sets-not-shrinking", fmt.Sprintf("%s pot %d eligible %v, previous %v", who, k, el, prevEl))
		}
		if !(k == 0 && p.Level == 0) {
			prevEl = el
		}
		prev = p.Level
		sum += p.Total
	}
	if sum != total {
		bad("totals-sum", fmt.Sprintf("%s pots add up to %d, put in %d; contributions=%v", who, sum, total, c))
	}
}

// checkResultDirect: the C02 reference settlement on a directly computed result.
func checkResultDirect(r *settlement.Result, pc *PCaller, who string, res *sim.Result, bad func(sig, detail string)) {
	n := len(pc.Contrib)
	c := pc.Contrib
	changed := make([]int64, n)
	got := make([]bool, n)
	for _, p := range r.Players {
		if p.Idx >= 0 && p.Idx < n {
			changed[p.Idx], got[p.Idx] = p.Changed, true
			if p.Final != pc.Bank[p.Idx]+p.Changed {
				bad("final-is-not-bankroll-plus-change", fmt.Sprintf("%s seat %d final %d bankroll %d changed %d", who, p.Idx, p.Final, pc.Bank[p.Idx], p.Changed))
			}
		}
	}
	lo, hi := make([]int64, n), make([]int64, n)
	lo2, hi2 := make([]int64, n), make([]int64, n)
	for _, p := range refPots(c, pc.Fold) {
		if len(p.eligible) == 0 {
			return
		}
		best := -1
		for _, k := range p.eligible {
			if pc.Score[k] > best {
				best = pc.Score[k]
			}
		}
		var win []int
		for _, k := range p.eligible {
			if pc.Score[k] == best {
				win = append(win, k)
			}
		}
		w := int64(len(win))
		if w > 1 {
			res.Count("probe.showdown-tie", 1)
		}
		for _, k := range win {
			lo[k] += p.amount / w
			hi[k] += p.amount / w
			if p.amount%w != 0 {
				hi[k]++
			}
			for _, la := range p.layerAmt {
				lo2[k] += la / w
				hi2[k] += la / w
				if la%w != 0 {
					hi2[k]++
				}
			}
		}
	}
	for k := 0; k < n; k++ {
		if !got[k] {
			bad("no-result-entry", fmt.Sprintf("%s seat %d has no result entry", who, k))
			continue
		}
		if pc.Fold[k] {
			if changed[k] != -c[k] {
				bad("folded-seat-payout", fmt.Sprintf("%s folded seat %d changed %d, put in %d", who, k, changed[k], c[k]))
			}
			continue
		}
		net := changed[k] + c[k]
		if net >= lo[k] && net <= hi[k] {
			continue
		}
		if net >= lo2[k] && net <= hi2[k] {
			bad("tied-split-off-by-odd-chips (remainders handed out per contribution level instead of per pot)",
				fmt.Sprintf("%s seat %d received %d, an equal split of its pots allows %d..%d; contributions=%v fold=%v score=%v", who, k, net, lo[k], hi[k], c, pc.Fold, pc.Score))
			continue
		}
		bad("wrong-payout", fmt.Sprintf("%s seat %d received %d, reference allows %d..%d; contributions=%v fold=%v score=%v changed=%v", who, k, net, lo[k], hi[k], c, pc.Fold, pc.Score, changed))
	}
	all, paid, put := true, int64(0), int64(0)
	for k := 0; k < n; k++ {
		if !got[k] {
			all = false
		}
		paid += changed[k] + c[k]
		put += c[k]
	}
	if all && paid != put {
		bad("pots-not-handed-out-completely", fmt.Sprintf("%s the seats put in %d and receive %d; contributions=%v fold=%v score=%v changed=%v", who, put, paid, c, pc.Fold, pc.Score, changed))
	}
}

// Mixed serves C02 and C16: most runs are simulated hands (world E), one in
// eight drives the pot and settlement packages directly (world P).
type Mixed struct{}

func (Mixed) Name() string { return "E+P" }

func (Mixed) Components() map[string]string {
	m := World{}.Components()
	for k, v := range (PWorld{}).Components() {
		m[k] = v
	}
	return m
}

func (Mixed) Generate(subseed uint64, o sim.Options) *sim.Result {
	if subseed%8 == 0 {
		return PWorld{}.Generate(subseed, o)
	}
	return World{}.Generate(subseed, o)
}

func (Mixed) Replay(c *sim.Case, o sim.Options) *sim.Result {
	if c.World == "P" {
		return PWorld{}.Replay(c, o)
	}
	return World{}.Replay(c, o)
}

func (Mixed) Simplify(c *sim.Case) []*sim.Case {
	if c.World == "P" {
		return PWorld{}.Simplify(c)
	}
	return World{}.Simplify(c)
}
