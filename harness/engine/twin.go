package engine

import (
	"fmt"

	"verif/harness/sim"

	"github.com/weedbox/pokerface"
	"github.com/weedbox/pokerface/combination"
)

// The determinism clause of C07 ("the same deck and the same operations
// always lead to the same state") against process-global state: the recorded
// hand is executed twice in this process,
//
//	A: after another hand with the OTHER ranking table has been played to
//	   showdown on exactly the same deck (a table server hosts standard and
//	   short-deck tables side by side), and
//	B: on the deck with the suits rotated (S->H->D->C->S), which is the same
//	   hand up to renaming and shares no card combination key with A,
//
// and the suit-independent projection of every state (events, chips, offers,
// pots, hand categories and strengths, result) must agree. Anything the
// engine remembers outside the game state - a cache keyed by cards, a shared
// slice - shows as a difference.

func rotateSuits(deck []string) []string {
	next := map[byte]byte{'S': 'H', 'H': 'D', 'D': 'C', 'C': 'S'}
	out := make([]string, len(deck))
	for i, c := range deck {
		out[i] = string(next[c[0]]) + c[1:]
	}
	return out
}

// pollute plays a whole hand on the same deck under the other ranking table.
func pollute(cfg *Cfg) {
	defer func() { recover() }()
	playPassiveHand(cfg, true)
}

// playPassiveHand plays a complete check/call hand with cfg's options on
// cfg's deck order, with cfg's ranking table or the other one.
func playPassiveHand(cfg *Cfg, otherRanking bool) {
	opts := cfg.Options()
	if otherRanking {
		if cfg.Short {
			opts.CombinationPowers = combination.CombinationPowerStandard
		} else {
			opts.CombinationPowers = combination.CombinationPowerShortDeck
		}
	}
	g := pokerface.NewGame(opts)
	if g.Start() != nil {
		return
	}
	if otherRanking {
		// same deck order: anything keyed by cards collides
		pinDeck(g.GetState(), cfg)
	} // else: its own shuffle - anything shared with this hand's deck shows
	for k := 0; k < 400; k++ {
		gs := g.GetState()
		switch gs.Status.CurrentEvent {
		case "GameClosed":
			return
		case "ReadyRequested":
			g.ReadyForAll()
		case "AnteRequested":
			g.PayAnte()
		case "BlindsRequested":
			g.PayBlinds()
		case "RoundClosed":
			g.Next()
		case "RoundStarted":
			al := gs.Players[gs.Status.CurrentPlayer].AllowedActions
			switch {
			case contains(al, "pass"):
				g.Pass()
			case contains(al, "check"):
				g.Check()
			case contains(al, "call"):
				g.Call()
			default:
				g.Allin()
			}
		default:
			return
		}
	}
}

func projection(gs *pokerface.GameState) string {
	s := fmt.Sprintf("%s/%s cur=%d W=%d R=%d rp=%d board=%d pos=%d|", gs.Status.CurrentEvent, gs.Status.Round, gs.Status.CurrentPlayer,
		gs.Status.CurrentWager, gs.Status.PreviousRaiseSize, gs.Status.CurrentRoundPot, len(gs.Status.Board), gs.Status.CurrentDeckPosition)
	for _, p := range gs.Players {
		s += fmt.Sprintf("%d:%v %d %d %d %v", p.Idx, p.Fold, p.StackSize, p.Wager, p.Pot, p.AllowedActions)
		if p.Combination != nil {
			s += fmt.Sprintf(" %s %d", p.Combination.Type, p.Combination.Power)
		}
		s += "|"
	}
	for _, p := range gs.Status.Pots {
		s += fmt.Sprintf("pot %d %d|", p.Level, p.Total)
	}
	if gs.Result != nil {
		for _, p := range gs.Result.Players {
			s += fmt.Sprintf("res %d %d %d|", p.Idx, p.Final, p.Changed)
		}
	}
	return s
}

// execute plays the recorded steps (and the deterministic closer) on cfg and
// returns the projection after every step.
func execute(cfg *Cfg, steps []sim.Step) (out []string, fault string) {
	defer func() {
		if r := recover(); r != nil {
			fault = fmt.Sprint(r)
		}
	}()
	srv, err, _ := startGame(cfg, false, cfg.ViaBackend)
	if err != nil {
		return nil, err.Error()
	}
	for i := range steps {
		st := steps[i]
		d := srv.deliver(&st, i)
		if d.pan != "" {
			return out, d.pan
		}
		out = append(out, projection(srv.state()))
	}
	return out, ""
}

// twinStart runs the pollution before anything of this run touches the deck
// (so that the run itself is execution A).
func (r *run) twinStart() {
	if !r.cfg.Twin || r.cfg.Invalid != "" || !(r.on("C07") || r.on("C10") || r.on("C02")) {
		return
	}
	pollute(r.cfg)
	r.res.Count("fault.hand-with-the-other-ranking-table-played-first", 1)
	r.twinOn = r.on("C07")
}

func (r *run) twinCheck() {
	if !r.twinOn || r.dead {
		return
	}
	steps := make([]sim.Step, 0, len(r.steps))
	a := make([]string, 0, len(r.steps))
	for i, st := range r.steps {
		if st.Actor == "server" || st.Actor == "sim" {
			continue // neighbour hands and markers are not part of this hand
		}
		steps = append(steps, st)
		if i < len(r.twinA) {
			a = append(a, r.twinA[i])
		}
	}
	r.probe("twin-execution")
	b := *r.cfg
	b.Deck = rotateSuits(r.cfg.Deck)
	pb, fb := execute(&b, steps)
	if fb != "" {
		r.viol("C07", "same-deck-and-operations-different-state (depends on what else the process has done)", fmt.Sprintf("execution on the suit-rotated deck failed with %q", fb), len(r.steps))
		return
	}
	for i := 0; i < len(a) && i < len(pb); i++ {
		if a[i] != pb[i] {
			r.viol("C07", "same-deck-and-operations-different-state (depends on what else the process has done)",
				fmt.Sprintf("after step %d (%s): played after a hand with the other ranking table on the same deck: %s ; played on the same deck with the suits renamed: %s", i, steps[i], a[i], pb[i]), i)
			return
		}
	}
}
