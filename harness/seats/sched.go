package seats

import (
	"bytes"
	"fmt"
	"runtime"
	"strconv"
	"sync"
	"sync/atomic"
	"time"
)

const (
	gNew int32 = iota
	gParked
	gRunning
	gFinished
)

type gor struct {
	id      int
	goid    int64
	state   int32
	resume  chan struct{}
	label   string
	op      opSpec
	res     opResult
	call    int
	ret     int
	started bool
}

// sched releases exactly one goroutine at a time and waits for quiescence:
// every goroutine is parked at a yield, finished, or observed (through the
// runtime's wait reason) to be blocked on the manager's mutex.
type sched struct {
	mu    sync.Mutex
	byGo  map[int64]*gor
	gs    []*gor
	polls int64
	fault string
}

func curGoid() int64 {
	var buf [64]byte
	n := runtime.Stack(buf[:], false)
	// "goroutine 123 ["
	b := buf[:n]
	b = b[len("goroutine "):]
	i := bytes.IndexByte(b, ' ')
	id, _ := strconv.ParseInt(string(b[:i]), 10, 64)
	return id
}

func (s *sched) lookup() *gor {
	id := curGoid()
	s.mu.Lock()
	g := s.byGo[id]
	s.mu.Unlock()
	return g
}

// yield is installed as seat_manager.VerifYield.
func (s *sched) yield(label string) {
	g := s.lookup()
	if g == nil {
		return // not a simulated client (interleaved mode)
	}
	g.park(label)
}

func (g *gor) park(label string) {
	g.label = label
	atomic.StoreInt32(&g.state, gParked)
	<-g.resume // the scheduler has already marked the goroutine running
}

func (s *sched) spawn(id int, op opSpec, do func(opSpec) opResult) *gor {
	g := &gor{id: id, op: op, resume: make(chan struct{}), call: -1, ret: -1}
	ready := make(chan struct{})
	go func() {
		g.goid = curGoid()
		s.mu.Lock()
		s.byGo[g.goid] = g
		s.mu.Unlock()
		close(ready)
		g.park("start")
		g.res = do(g.op)
		atomic.StoreInt32(&g.state, gFinished)
	}()
	<-ready
	s.gs = append(s.gs, g)
	s.waitQuiet()
	return g
}

var lockReasons = [][]byte{[]byte("sync.Mutex.Lock"), []byte("sync.RWMutex.Lock"), []byte("sync.RWMutex.RLock")}

// blockedOnLock reads the wait reason of the given goroutines from a full
// stack dump. Only the three mutex wait reasons count; the generic
// "semacquire" also shows up transiently around GC and must not.
func blockedOnLock(ids map[int64]bool) map[int64]bool {
	out := map[int64]bool{}
	buf := make([]byte, 1<<16)
	for {
		n := runtime.Stack(buf, true)
		if n < len(buf) {
			buf = buf[:n]
			break
		}
		buf = make([]byte, 2*len(buf))
	}
	for _, blk := range bytes.Split(buf, []byte("\n\n")) {
		if !bytes.HasPrefix(blk, []byte("goroutine ")) {
			continue
		}
		b := blk[len("goroutine "):]
		i := bytes.IndexByte(b, ' ')
		if i < 0 {
			continue
		}
		id, err := strconv.ParseInt(string(b[:i]), 10, 64)
		if err != nil || !ids[id] {
			continue
		}
		j := bytes.IndexByte(b, '[')
		k := bytes.IndexByte(b, ']')
		if j < 0 || k < j {
			continue
		}
		status := b[j+1 : k]
		for _, r := range lockReasons {
			if bytes.HasPrefix(status, r) {
				out[id] = true
			}
		}
	}
	return out
}

// waitQuiet returns once every goroutine is parked, finished or blocked on
// the mutex. Which of these a goroutine reaches is a function of program
// state, so polling affects wall time only.
func (s *sched) waitQuiet() {
	deadline := time.Now().Add(5 * time.Second)
	spins := 0
	for {
		running := map[int64]bool{}
		for _, g := range s.gs {
			st := atomic.LoadInt32(&g.state)
			if st == gRunning || st == gNew {
				running[g.goid] = true
			}
		}
		if len(running) == 0 {
			return
		}
		spins++
		if spins < 50 {
			runtime.Gosched()
			continue
		}
		s.polls++
		bl := blockedOnLock(running)
		if len(bl) == len(running) {
			// confirm: states unchanged after the dump
			same := true
			for _, g := range s.gs {
				st := atomic.LoadInt32(&g.state)
				if (st == gRunning || st == gNew) != running[g.goid] {
					same = false
				}
			}
			if same {
				return
			}
		}
		if time.Now().After(deadline) {
			s.fault = fmt.Sprintf("watchdog: goroutines neither parked, finished nor blocked after 5s (%d running)", len(running))
			return
		}
		time.Sleep(20 * time.Microsecond)
	}
}

// release lets goroutine g run until the next quiescent point.
func (s *sched) release(g *gor) {
	if atomic.LoadInt32(&g.state) != gParked {
		return
	}
	// mark it running before the hand-off, otherwise waitQuiet could see
	// the stale "parked" and return before the goroutine has moved at all
	atomic.StoreInt32(&g.state, gRunning)
	g.resume <- struct{}{}
	s.waitQuiet()
}

func (s *sched) parked() []*gor {
	var out []*gor
	for _, g := range s.gs {
		if atomic.LoadInt32(&g.state) == gParked {
			out = append(out, g)
		}
	}
	return out
}

func (s *sched) unfinished() int {
	k := 0
	for _, g := range s.gs {
		if atomic.LoadInt32(&g.state) != gFinished {
			k++
		}
	}
	return k
}

func (g *gor) stateNow() int32 { return atomic.LoadInt32(&g.state) }
