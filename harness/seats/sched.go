package seats

import (
	"fmt"
	"runtime"
	"sync"
	"sync/atomic"
	"time"

	"verif/harness/sim"
)

const (
	gNew int32 = iota
	gParked
	gRunning
	gFinished
)

type gor struct {
	id      int
	goid    int64
	state   int32
	resume  chan struct{}
	label   string
	op      opSpec
	res     opResult
	call    int
	ret     int
	started bool
	parkRNG *sim.RNG // generated scheduling points: this goroutine's own stream decides where it parks
	spins   int      // failed attempts to take the lock since it last executed a statement
	failAt  int64    // value of the scheduler's progress counter at its last failed attempt
}

// sched releases exactly one goroutine at a time and waits for quiescence:
// every goroutine is parked at a yield, finished, or observed (through the
// runtime's wait reason) to be blocked on the manager's mutex.
type sched struct {
	parkP     float64 // probability of parking at a generated scheduling point
	mainSpins int
	progress  int64 // statements executed and operations finished, by anybody
	mu        sync.Mutex
	byGo      map[int64]*gor
	gs        []*gor
	polls     int64
	fault     string
}

func curGoid() int64 { return sim.GoID() }

func (s *sched) lookup() *gor {
	id := curGoid()
	s.mu.Lock()
	g := s.byGo[id]
	s.mu.Unlock()
	return g
}

// yield is installed as seat_manager.VerifYield.
func (s *sched) yield(label string) {
	g := s.lookup()
	if g == nil {
		return // not a simulated client (interleaved mode)
	}
	g.park(label)
}

// yieldGen is installed as the scheduling point of the generated copy
// (every statement of seat_manager): the goroutine parks there with
// probability parkP, decided by its own stream.
func (s *sched) yieldGen(fid int) {
	g := s.lookup()
	if g == nil || g.parkRNG == nil {
		return
	}
	g.spins = 0
	atomic.AddInt64(&s.progress, 1)
	if g.parkRNG.Chance(s.parkP) {
		g.park("gen:" + genFuncName(fid))
	}
}

// blocked is installed as the generated copy's "could not take the lock"
// point: the goroutine parks and tries again when it is released next.
func (s *sched) blocked() {
	g := s.lookup()
	if g == nil {
		// the simulator's own goroutine: it only calls into the seat manager
		// when nothing is in flight
		s.mainSpins++
		if s.mainSpins > 200000 {
			panic("harness: the seat manager's lock is held by a parked operation while the simulator itself calls into it")
		}
		runtime.Gosched()
		return
	}
	g.spins++
	g.failAt = atomic.LoadInt64(&s.progress)
	g.park("blocked")
}

func (g *gor) park(label string) {
	g.label = label
	atomic.StoreInt32(&g.state, gParked)
	<-g.resume // the scheduler has already marked the goroutine running
}

func (s *sched) spawn(id int, op opSpec, do func(opSpec) opResult, parkSeed uint64) *gor {
	g := &gor{id: id, op: op, resume: make(chan struct{}), call: -1, ret: -1}
	if parkSeed != 0 {
		g.parkRNG = sim.NewRNG(parkSeed)
	}
	ready := make(chan struct{})
	go func() {
		g.goid = curGoid()
		s.mu.Lock()
		s.byGo[g.goid] = g
		s.mu.Unlock()
		close(ready)
		g.park("start")
		g.res = do(g.op)
		atomic.AddInt64(&s.progress, 1)
		atomic.StoreInt32(&g.state, gFinished)
	}()
	<-ready
	s.gs = append(s.gs, g)
	s.waitQuiet()
	return g
}

func blockedOnLock(ids map[int64]bool) map[int64]bool { return sim.BlockedOnLock(ids) }

// waitQuiet returns once every goroutine is parked, finished or blocked on
// the mutex. Which of these a goroutine reaches is a function of program
// state, so polling affects wall time only.
func (s *sched) waitQuiet() {
	deadline := time.Now().Add(5 * time.Second)
	spins := 0
	for {
		running := map[int64]bool{}
		for _, g := range s.gs {
			st := atomic.LoadInt32(&g.state)
			if st == gRunning || st == gNew {
				running[g.goid] = true
			}
		}
		if len(running) == 0 {
			return
		}
		spins++
		if spins < 50 {
			runtime.Gosched()
			continue
		}
		s.polls++
		bl := blockedOnLock(running)
		if len(bl) == len(running) {
			// confirm: states unchanged after the dump
			same := true
			for _, g := range s.gs {
				st := atomic.LoadInt32(&g.state)
				if (st == gRunning || st == gNew) != running[g.goid] {
					same = false
				}
			}
			if same {
				return
			}
		}
		if time.Now().After(deadline) {
			s.fault = fmt.Sprintf("watchdog: goroutines neither parked, finished nor blocked after 5s (%d running)", len(running))
			return
		}
		time.Sleep(20 * time.Microsecond)
	}
}

// release lets goroutine g run until the next quiescent point.
func (s *sched) release(g *gor) {
	if atomic.LoadInt32(&g.state) != gParked {
		return
	}
	// mark it running before the hand-off, otherwise waitQuiet could see
	// the stale "parked" and return before the goroutine has moved at all
	atomic.StoreInt32(&g.state, gRunning)
	g.resume <- struct{}{}
	s.waitQuiet()
}

func (s *sched) parked() []*gor {
	var out []*gor
	for _, g := range s.gs {
		if atomic.LoadInt32(&g.state) == gParked {
			out = append(out, g)
		}
	}
	return out
}

func (s *sched) unfinished() int {
	k := 0
	for _, g := range s.gs {
		if atomic.LoadInt32(&g.state) != gFinished {
			k++
		}
	}
	return k
}

func (g *gor) stateNow() int32 { return atomic.LoadInt32(&g.state) }
