//go:build verifyield

package seats

import "github.com/weedbox/pokerface/verifyield"

// GenAvailable reports whether this binary was built over the generated copy
// (scheduling points at every statement of seat_manager).
func GenAvailable() bool { return true }

func installGen(h func(fid int), b func()) { verifyield.H, verifyield.B = h, b }

func genFuncName(fid int) string {
	if fid >= 0 && fid < len(verifyield.FuncNames) {
		return verifyield.FuncNames[fid]
	}
	return ""
}
