package seats

import (
	"encoding/json"
	"fmt"
	"math/rand"
	"sort"
	"sync/atomic"
	"time"

	"verif/harness/sim"

	"github.com/anishathalye/porcupine"
	sm "github.com/weedbox/pokerface/seat_manager"
)

type Cfg struct {
	Max      int    `json:"max"`
	RandSeed int64  `json:"rand_seed"` // math/rand seed (Join(-1) pick)
	OrderKey uint64 `json:"order_key"` // permutation of the available-seat lists (map iteration order)
	Mode     string `json:"mode"`      // seq | conc
	// Gen: concurrent mode over the generated copy (a scheduling point before
	// every statement of seat_manager, lock acquisitions visible); ParkP is
	// the probability of parking at such a point
	Gen   bool    `json:"gen,omitempty"`
	ParkP float64 `json:"park_p,omitempty"`
}

type player struct {
	pid  int32
	seat int
}

// run is one simulated history of a seat manager.
type run struct {
	cfg          *Cfg
	opt          sim.Options
	res          *sim.Result
	on           func(string) bool
	m            *sm.SeatManager
	mod          model
	steps        []sim.Step
	dead         bool
	order        *sim.RNG
	joins        int
	leaves       int
	nexts        int
	memberChange bool
	emptyAtNext  [maxSeats]bool // seat was empty when the last successful Next() returned
	modBefore    model          // the model before the operation being judged
	lastDealer   int            // dealer after the last successful Next(), as remembered by the harness (-1: none yet)
	// concurrent mode
	sc    *sched
	hist  []porcupine.Operation
	clock int
	seenT map[uint64]bool
	// the current burst: operations in flight at once, and the seat map
	// they started from (for the sequential-equivalence check)
	burstSnap *sm.SeatManagerState
	burstOps  []*gor
}

func (r *run) viol(prop, sig, detail string) {
	if r.on(prop) {
		r.res.Violate(prop, sig, detail, len(r.steps)-1)
	}
}

func (r *run) probe(name string) { r.res.Count("probe."+name, 1) }

func newRun(cfg *Cfg, opt sim.Options) *run {
	r := &run{cfg: cfg, opt: opt, res: &sim.Result{}, seenT: map[uint64]bool{}}
	p := opt.Property
	r.on = func(id string) bool { return p == "" || p == id }
	r.mod.n = cfg.Max
	r.lastDealer = -1
	r.order = sim.NewRNG(cfg.OrderKey)
	rand.Seed(cfg.RandSeed)
	sm.VerifOrder = func(a, b []int) {
		// the simulator owns the map iteration order: sorted, then a drawn
		// permutation
		for _, l := range [][]int{a, b} {
			sort.Ints(l)
			for i := len(l) - 1; i > 0; i-- {
				j := r.order.Intn(i + 1)
				l[i], l[j] = l[j], l[i]
			}
		}
	}
	sm.VerifYield = nil
	if cfg.Mode == "conc" {
		r.sc = &sched{byGo: map[int64]*gor{}, parkP: cfg.ParkP}
		sm.VerifYield = r.sc.yield
		if cfg.Gen {
			installGen(r.sc.yieldGen, r.sc.blocked)
		}
	}
	r.m = sm.NewSeatManager(cfg.Max)
	return r
}

// ---- observation helpers ----------------------------------------------------

type seatView struct {
	occ, active, reserved bool
	who                   int32
}

func (r *run) seats() []seatView {
	ss := r.m.GetSeats()
	out := make([]seatView, len(ss))
	for i, s := range ss {
		if s == nil {
			continue
		}
		out[i] = seatView{occ: s.Player != nil, active: s.IsActive, reserved: s.IsReserved}
		if p, ok := s.Player.(int32); ok {
			out[i].who = p
		}
	}
	return out
}

func playable(v []seatView) []int {
	var p []int
	for i, s := range v {
		if s.occ && s.active && !s.reserved {
			p = append(p, i)
		}
	}
	return p
}

func seatID(s *sm.Seat) int {
	if s == nil {
		return -1
	}
	return s.ID
}

// clockwise order of ids starting right after `from` (from excluded, wraps, from last)
func clockwiseFrom(from, n int) []int {
	out := make([]int, 0, n)
	for k := 1; k <= n; k++ {
		out = append(out, ((from+k)%n+n)%n)
	}
	return out
}

func inInts(xs []int, x int) bool {
	for _, y := range xs {
		if y == x {
			return true
		}
	}
	return false
}

// ---- executing one operation on the real object -----------------------------

func (r *run) exec(op opSpec) (res opResult) {
	defer func() {
		if x := recover(); x != nil {
			res.Panic = fmt.Sprint(x)
		}
	}()
	switch op.Kind {
	case "join":
		s, err := r.m.Join(op.Seat, op.PID)
		res.Seat, res.Err = s, errName(err)
	case "leave":
		res.Err = errName(r.m.Leave(op.Seat))
	case "sit":
		res.Err = errName(r.m.Seat(op.Seat))
	case "reserve":
		res.Err = errName(r.m.Reserve(op.Seat))
	case "next":
		res.Err = errName(r.m.Next())
	case "get":
		res.Val = r.readOnly(op.Seat)
	case "restart":
		// crash / restart: the table layer keeps the seat map as a
		// SeatManagerState and rebuilds the manager with ApplyStates
		st := &sm.SeatManagerState{Max: r.cfg.Max, Seats: map[int]*sm.Seat{}, Dealer: seatID(r.m.Dealer()), SB: seatID(r.m.SmallBlind()), BB: seatID(r.m.BigBlind())}
		for _, s := range r.m.GetSeats() {
			c := *s
			st.Seats[s.ID] = &c
		}
		nm := sm.NewSeatManager(r.cfg.Max)
		res.Err = errName(nm.ApplyStates(st))
		r.m = nm
	}
	return
}

// readOnly makes one of the read-only calls a table loop, a lobby or a
// display makes; what it returned is rendered right away (the pointers it
// hands out are live).
func (r *run) readOnly(which int) string {
	n := r.cfg.Max
	seatStr := func(ss []*sm.Seat) string {
		out := ""
		for _, s := range ss {
			if s == nil {
				out += "nil "
				continue
			}
			occ := int32(0)
			if s.Player != nil {
				if p, ok := s.Player.(int32); ok {
					occ = p
				} else {
					occ = -1
				}
			}
			out += fmt.Sprintf("%d:%d:%v:%v ", s.ID, occ, s.IsReserved, s.IsActive)
		}
		return out
	}
	switch which % 8 {
	case 0:
		a, b := r.m.GetAvailableSeats()
		a, b = append([]int(nil), a...), append([]int(nil), b...)
		sort.Ints(a)
		sort.Ints(b)
		return fmt.Sprintf("available %v %v", a, b)
	case 1:
		return fmt.Sprintf("available-count %d", r.m.GetAvailableSeatCount())
	case 2:
		return fmt.Sprintf("players %d", r.m.GetPlayerCount())
	case 3:
		return "seats " + seatStr(r.m.GetSeats())
	case 4:
		return "normalized " + seatStr(r.m.GetNormalizeSeats((which/8)%n))
	case 5:
		return "seat " + seatStr([]*sm.Seat{r.m.GetSeat((which / 8) % n)})
	case 6:
		if r.m.Dealer() == nil {
			return "no dealer yet" // GetPlayableSeats needs one
		}
		return "playable " + seatStr(r.m.GetPlayableSeats())
	default:
		if r.m.Dealer() == nil {
			return "no dealer yet"
		}
		return fmt.Sprintf("playable-count %d", r.m.GetPlayableSeatCount())
	}
}

func stepOf(op opSpec) sim.Step {
	st := sim.Step{Actor: "player", Op: op.Kind}
	if op.Kind == "next" || op.Kind == "restart" {
		st.Actor = "table"
		return st
	}
	st.Args = []int64{int64(op.Seat)}
	if op.Kind == "join" {
		st.Args = append(st.Args, int64(op.PID))
	}
	return st
}

func opOf(st *sim.Step) opSpec {
	op := opSpec{Kind: st.Op}
	if len(st.Args) > 0 {
		op.Seat = int(st.Args[0])
	}
	if len(st.Args) > 1 {
		op.PID = int32(st.Args[1])
	}
	return op
}

// seqOp performs one operation in interleaved mode and evaluates the
// C18 / C17 / C08 oracles around it.
func (r *run) seqOp(op opSpec) opResult {
	before := r.seats()
	r.modBefore = r.mod
	dBefore := seatID(r.m.Dealer())
	res := r.exec(op)
	r.res.Steps++
	if r.opt.KeepLog {
		r.res.Log = append(r.res.Log, sim.Mix(sim.HashString(op.Kind+res.Err+res.Panic), uint64(op.Seat+7), uint64(res.Seat+7), uint64(seatID(r.m.Dealer())+7)))
	}
	r.judge(op, res)
	if r.dead {
		return res
	}
	if op.Kind == "next" {
		r.nexts++
		r.judgeNext(before, dBefore, res)
	}
	if op.Kind == "restart" {
		after := r.seats()
		same := len(after) == len(before) && seatID(r.m.Dealer()) == dBefore
		for i := range before {
			if same && before[i] != after[i] {
				same = false
			}
		}
		if !same {
			r.viol("C18", "restart-changed-the-seat-map", fmt.Sprintf("before %v dealer %d, after %v dealer %d", before, dBefore, after, seatID(r.m.Dealer())))
			r.viol("C17", "restart-lost-the-button", fmt.Sprintf("dealer %d before the restart, %d after", dBefore, seatID(r.m.Dealer())))
		}
	}
	r.crossCheck()
	// coverage measure
	key := sim.Mix(sim.HashString(op.Kind+"/"+res.Err), uint64(len(playable(before))), uint64(r.mod.count()), boolU(op.Seat >= 0 && op.Seat < r.cfg.Max && before[op.Seat].occ), boolU(dBefore >= 0))
	if !r.seenT[key] {
		r.seenT[key] = true
		r.res.Trans = append(r.res.Trans, key)
		r.res.States = append(r.res.States, sim.Mix(uint64(len(playable(before))), uint64(r.mod.count()), uint64(r.cfg.Max)))
	}
	return res
}

func boolU(b bool) uint64 {
	if b {
		return 1
	}
	return 0
}

// judge: result against the sequential model (C18)
func (r *run) judge(op opSpec, res opResult) {
	r.res.Count("op."+op.Kind+"."+map[bool]string{true: "ok", false: "refused"}[res.Err == "" && res.Panic == ""], 1)
	if res.Panic != "" {
		r.viol("C18", fmt.Sprintf("panic: %s", panicClass(op, r.cfg.Max)), fmt.Sprintf("%v panicked: %s", op, res.Panic))
		if op.Kind == "next" {
			r.viol("C17", "panic: next", fmt.Sprintf("Next() panicked: %s", res.Panic))
		}
		r.dead = true
		return
	}
	ok, why := r.mod.step(op, res)
	if !ok {
		r.viol("C18", "model: "+why, fmt.Sprintf("%+v -> %+v", op, res))
	}
	if op.Kind == "join" && res.Err == "" {
		r.joins++
		r.memberChange = true
	}
	if op.Kind == "leave" && res.Err == "" {
		r.leaves++
		r.memberChange = true
	}
}

func panicClass(op opSpec, max int) string {
	if op.Kind == "next" {
		return "next"
	}
	if op.Seat < 0 || op.Seat >= max {
		return op.Kind + " out-of-range seat"
	}
	return op.Kind
}

// crossCheck: occupancy, count and held-out-of-play invariants (C18)
func (r *run) crossCheck() {
	if !r.on("C18") {
		return
	}
	v := r.seats()
	if len(v) != r.cfg.Max {
		r.viol("C18", "seat-count", fmt.Sprintf("GetSeats returned %d seats for a table of %d", len(v), r.cfg.Max))
		return
	}
	seen := map[int32]int{}
	for i, s := range v {
		if s.occ != (r.mod.occ[i] != 0) || (s.occ && s.who != r.mod.occ[i]) {
			r.viol("C18", "occupancy-differs-from-model", fmt.Sprintf("seat %d holds %v (occupied=%v), model says player %d", i, s.who, s.occ, r.mod.occ[i]))
		}
		if s.occ {
			seen[s.who]++
			if seen[s.who] > 1 {
				r.viol("C18", "player-seated-twice", fmt.Sprintf("player %d holds more than one seat", s.who))
			}
			if s.reserved != r.mod.res[i] {
				r.viol("C18", "reserved-flag-differs-from-model", fmt.Sprintf("seat %d reserved=%v, model %v", i, s.reserved, r.mod.res[i]))
			}
		}
	}
	if c := r.m.GetPlayerCount(); c != r.joins-r.leaves || c != r.mod.count() {
		r.viol("C18", "player-count", fmt.Sprintf("GetPlayerCount=%d, joins-leaves=%d", c, r.joins-r.leaves))
	}
	// a player who has merely joined is held out of play until they sit in
	if r.m.Dealer() != nil {
		var ps []*sm.Seat
		func() {
			defer func() {
				if x := recover(); x != nil {
					r.viol("C18", "panic: GetPlayableSeats", fmt.Sprint(x))
					r.dead = true
				}
			}()
			ps = r.m.GetPlayableSeats()
		}()
		for _, s := range ps {
			if s == nil {
				continue
			}
			if s.ID >= 0 && s.ID < r.cfg.Max && (r.mod.occ[s.ID] == 0 || r.mod.res[s.ID]) {
				r.viol("C18", "joined-but-not-sat-in-seat-is-playable", fmt.Sprintf("seat %d is playable but the model says occupied=%v reserved=%v", s.ID, r.mod.occ[s.ID] != 0, r.mod.res[s.ID]))
			}
		}
	}
	for i, s := range v {
		if s.occ && s.active && !s.reserved && r.mod.res[i] {
			r.viol("C18", "joined-but-not-sat-in-seat-is-playable", fmt.Sprintf("seat %d", i))
		}
	}
}

// judgeNext: C17 (button) and C08 (positions) around a Next() call
func (r *run) judgeNext(before []seatView, dBefore int, res opResult) {
	n := r.cfg.Max
	// who could play before the move: seated and sat in according to the
	// harness's own record of accepted operations (not the object's flags,
	// which a refused operation must not have touched), active according to
	// the object
	var B []int
	waiting := 0 // occupied and not reserved, whatever the active flag
	for i, s := range before {
		if i < maxSeats && r.modBefore.occ[i] != 0 && !r.modBefore.res[i] {
			waiting++
			if s.active {
				B = append(B, i)
			}
		}
	}
	after := r.seats()
	P := playable(after)
	d := seatID(r.m.Dealer())
	// the previous dealer is the one the harness remembers from the last
	// successful Next(), not what the object says now
	if dBefore != r.lastDealer {
		r.viol("C17", "button-moved-between-hands", fmt.Sprintf("dealer was %d after the last successful Next(), it is %d before this one", r.lastDealer, dBefore))
		dBefore = r.lastDealer
	}
	if res.Err == "" {
		r.lastDealer = d
	}
	if res.Err != "" {
		r.probe("next-refused")
		if res.Err != "ErrInsufficientNumberOfPlayers" {
			r.viol("C17", "next-wrong-error", fmt.Sprintf("Next() returned %s", res.Err))
		}
		if len(B) >= 2 {
			r.viol("C17", "next-refused-with-two-playable", fmt.Sprintf("Next() refused although seats %v were playable (dealer %d)", B, dBefore))
		}
		return
	}
	// accepted
	for i, sv := range after {
		if i < maxSeats {
			r.emptyAtNext[i] = !sv.occ
		}
	}
	if waiting < 2 {
		r.viol("C17", "next-accepted-with-fewer-than-two-players", fmt.Sprintf("Next() succeeded with %d seated non-reserved players", waiting))
	}
	if len(P) < 2 {
		r.viol("C17", "next-accepted-but-fewer-than-two-playable", fmt.Sprintf("after Next() playable seats are %v", P))
	}
	if len(B) >= 2 && dBefore < 0 {
		// no previous dealer: the statement measures from the previous
		// dealer, so the first button may go to any seat that could play
		r.probe("first-dealer")
		if !inInts(B, d) {
			r.viol("C17", "first-button-on-a-seat-that-could-not-play", fmt.Sprintf("first dealer %d, playable before %v", d, B))
		}
	} else if len(B) >= 2 {
		start := dBefore
		want := -1
		for _, id := range clockwiseFrom(start, n) {
			if inInts(B, id) && id != dBefore {
				want = id
				break
			}
		}
		if d != want {
			sig := "button-skipped-or-moved-wrongly"
			if d == dBefore {
				sig = "button-stayed-put"
			}
			r.viol("C17", sig, fmt.Sprintf("dealer %d -> %d, playable before %v, expected %d", dBefore, d, B, want))
		}
	} else {
		r.probe("next-with-fewer-than-two-playable-before")
	}
	if !r.on("C08") {
		return
	}
	sb, bb := seatID(r.m.SmallBlind()), seatID(r.m.BigBlind())
	if d < 0 || !inInts(P, d) || !inInts(P, sb) || !inInts(P, bb) {
		r.viol("C08", "position-on-unplayable-seat", fmt.Sprintf("dealer %d sb %d bb %d, playable %v", d, sb, bb, P))
		return
	}
	// playable seats clockwise from the dealer
	ord := []int{d}
	for _, id := range clockwiseFrom(d, n) {
		if id != d && inInts(P, id) {
			ord = append(ord, id)
		}
	}
	if len(ord) == 2 {
		r.probe("heads-up-positions")
		if sb != d || bb != ord[1] {
			r.viol("C08", "heads-up-positions", fmt.Sprintf("two playable %v: dealer %d sb %d bb %d", ord, d, sb, bb))
		}
	} else if len(ord) >= 3 {
		if sb != ord[1] || bb != ord[2] {
			sig := "blinds-not-next-to-dealer"
			// discriminating facts of the recorded finding: heads-up layout
			// on the first two playable seats, and every further playable
			// seat was let in by this very Next()
			lateOnly := sb == d && bb == ord[1]
			passedNow := []int{}
			if dBefore >= 0 {
				passedNow = between(dBefore, d, n)
			}
			for _, id := range ord[2:] {
				// playable before the call, or passed by the button in this
				// very move (then it had to be let in before the blinds were
				// chosen): not the recorded finding
				if inInts(B, id) || inInts(passedNow, id) {
					lateOnly = false
				}
			}
			if lateOnly {
				sig = "heads-up-positions-with-three-playable: waiting players after the big blind were let in after the heads-up decision"
			}
			r.viol("C08", sig, fmt.Sprintf("playable clockwise from dealer %v (playable before the call %v): sb %d bb %d", ord, B, sb, bb))
		}
	}
}

// ---- the newcomer scenario of C08 --------------------------------------------

// between reports the ids strictly between a and b clockwise.
func between(a, b, n int) []int {
	var out []int
	for _, id := range clockwiseFrom(a, n) {
		if id == b {
			break
		}
		out = append(out, id)
	}
	return out
}

// quiet runs the newcomer scenario: a new player takes empty seat E strictly
// between dealer and big blind and sits in; everybody else stays put; Next()
// is called `hands` times.
func (r *run) quiet(E int, hands int, pid int32, dupJoin bool) {
	n := r.cfg.Max
	d, bb := seatID(r.m.Dealer()), seatID(r.m.BigBlind())
	if d < 0 || bb < 0 || E < 0 || E >= n || r.mod.occ[E] != 0 || r.mod.res[E] || !inInts(between(d, bb, n), E) {
		return // not applicable at this state (e.g. after minimisation)
	}
	// the positions must be live: the players holding the button and the big
	// blind are still there and able to play ("other players staying put")
	pl := playable(r.seats())
	if !inInts(pl, d) || !inInts(pl, bb) {
		r.probe("newcomer-scenario-skipped-stale-positions")
		return
	}
	r.probe("newcomer-scenario")
	// discriminating fact of the recorded finding: the seat was occupied when
	// the last hand started and has been vacated since (so it was never
	// deactivated); a seat that was already empty then must make the newcomer wait
	vacatedSince := !r.emptyAtNext[E]
	res := r.seqOp(opSpec{Kind: "join", Seat: E, PID: pid})
	if r.dead || res.Err != "" {
		return
	}
	r.seqOp(opSpec{Kind: "sit", Seat: E})
	if dupJoin {
		// the transport delivers the newcomer's join a second time, after he
		// has sat in: it is refused (the seat is taken) and must leave nothing behind
		r.res.Count("fault.duplicate-join-delivered", 1)
		r.seqOp(opSpec{Kind: "join", Seat: E, PID: pid + 100000})
		if r.dead {
			return
		}
	}
	passed := false
	for h := 0; h < hands && !r.dead; h++ {
		dPrev := seatID(r.m.Dealer())
		res := r.seqOp(opSpec{Kind: "next"})
		if r.dead || res.Err != "" {
			return
		}
		dNew := seatID(r.m.Dealer())
		nowPassed := passed || inInts(between(dPrev, dNew, n), E)
		isPlayable := inInts(playable(r.seats()), E)
		switch {
		case isPlayable && !nowPassed:
			// leniency: when the blinds have moved so that the seat now lies
			// beyond the big blind, coming in is ordinary poker and the
			// statement ("between the dealer and the big blind") is read as
			// no longer applying to it
			bbNew := seatID(r.m.BigBlind())
			if E != dNew && E != bbNew && !inInts(between(dNew, bbNew, n), E) {
				r.probe("newcomer-beyond-new-big-blind")
				passed = true // from now on it may play
				continue
			}
			sig := "newcomer-dealt-in-before-button-passed"
			if vacatedSince {
				sig += ": seat was still active when taken (vacated since the last hand)"
			}
			r.viol("C08", sig, fmt.Sprintf("seat %d dealt in with dealer %d -> %d (button has not passed it)", E, dPrev, dNew))
		case !isPlayable && nowPassed:
			r.viol("C08", "newcomer-not-dealt-in-after-button-passed", fmt.Sprintf("seat %d still out with dealer %d -> %d (button has passed it)", E, dPrev, dNew))
		}
		if nowPassed && !passed {
			r.probe("newcomer-button-passed")
		}
		passed = nowPassed
	}
}

// ---- generation ----------------------------------------------------------------

// World implements sim.World for world S. Gen selects the variant that runs
// over the generated copy (needs the second simulator binary).
type World struct{ Gen bool }

func (World) Name() string { return "S" }

func (World) Components() map[string]string {
	return map[string]string{
		"seat_manager.SeatManager (seat_manager/seat_manager.go, build tag verif: yield points, available-seat order)": "real",
		"table.Table / match.Table (the callers of Join(-1), Leave, Seat, Reserve, Next, GetPlayableSeats)":            "not run: their calls are issued by simulated players and a simulated table loop",
		"goroutine scheduling, math/rand pick, map iteration order":                                                    "owned by the simulator (one-at-a-time scheduler at yield hooks, rand.Seed per run, VerifOrder)",
	}
}

func drawCfg(rng *sim.RNG, prop string) *Cfg {
	c := &Cfg{}
	c.Max = []int{2, 3, 4, 5, 6, 9, 10}[rng.Weighted([]int{12, 22, 18, 12, 12, 16, 8})]
	c.RandSeed = int64(rng.Uint64() >> 1)
	c.OrderKey = rng.Uint64()
	c.Mode = "seq"
	if prop == "C18" && rng.Chance(0.35) {
		c.Mode = "conc"
	}
	if (prop == "C08" || prop == "C17") && rng.Chance(0.15) {
		c.Mode = "conc"
	}
	return c
}

func (w World) Generate(subseed uint64, o sim.Options) *sim.Result {
	rng := sim.NewRNG(subseed)
	cfg := drawCfg(rng, o.Property)
	wname := "S"
	if w.Gen {
		if !GenAvailable() {
			return &sim.Result{Fault: "world S over generated scheduling points needs the binary built over the generated copy"}
		}
		wname = "SY"
		cfg.Mode, cfg.Gen = "conc", true
		cfg.ParkP = []float64{0.5, 0.25, 1.0 / 16, 1.0 / 64}[rng.Intn(4)]
	}
	r := newRun(cfg, o)
	cj, _ := json.Marshal(cfg)
	c := &sim.Case{World: wname, Property: o.Property, SubSeed: subseed, Config: cj}
	if cfg.Mode == "conc" {
		r.genConc(rng)
	} else {
		r.genSeq(rng)
	}
	c.Steps = r.steps
	r.res.Case = c
	r.res.Nontrivial = r.nexts > 0 && r.memberChange
	if cfg.Mode == "conc" {
		r.res.Nontrivial = r.res.Counters["probe.concurrent-burst"] > 0
	}
	sm.VerifYield, sm.VerifOrder = nil, nil
	installGen(nil, nil)
	return r.res
}

func (r *run) record(st sim.Step) { r.steps = append(r.steps, st) }

func (r *run) genSeq(rng *sim.RNG) {
	n := r.cfg.Max
	pid := int32(0)
	nextPID := func() int32 { pid++; return pid }
	steps := 20 + rng.Intn(45)
	// swarm: per-run operation mix
	w := []int{30 + rng.Intn(30), 10 + rng.Intn(25), 25 + rng.Intn(25), 4 + rng.Intn(12), 25 + rng.Intn(40)} // join leave sit reserve next
	junkRate := []float64{0, 0.03, 0.1}[rng.Intn(3)]
	restartRate := []float64{0, 0.05, 0.2}[rng.Intn(3)]
	quietRate := 0.0
	if r.on("C08") {
		quietRate = []float64{0.05, 0.15, 0.3}[rng.Intn(3)]
	}
	stalled := -1 // a stalled seat: nobody touches it for a window
	// most histories start from a populated table (otherwise the majority
	// of Next() calls is refused and little of the position logic runs)
	if rng.Chance(0.7) {
		m := 2 + rng.Intn(n-1)
		for _, seat := range rng.Perm(n)[:m] {
			o := opSpec{Kind: "join", Seat: seat, PID: nextPID()}
			if rng.Chance(0.3) {
				o.Seat = -1
			}
			r.record(stepOf(o))
			res := r.seqOp(o)
			if r.dead {
				return
			}
			if res.Err == "" && rng.Chance(0.85) {
				o2 := opSpec{Kind: "sit", Seat: res.Seat}
				r.record(stepOf(o2))
				r.seqOp(o2)
			}
		}
	}
	for i := 0; i < steps && !r.dead; i++ {
		if rng.Chance(0.05) {
			stalled = rng.Intn(n)
			r.res.Count("fault.stalled-client", 1)
		}
		// newcomer scenario right after a successful Next()
		if quietRate > 0 && r.m.Dealer() != nil && rng.Chance(quietRate) {
			d, bb := seatID(r.m.Dealer()), seatID(r.m.BigBlind())
			var cand []int
			if d >= 0 && bb >= 0 {
				for _, e := range between(d, bb, n) {
					if r.mod.occ[e] == 0 && !r.mod.res[e] {
						cand = append(cand, e)
					}
				}
			}
			if len(cand) > 0 {
				E := cand[rng.Intn(len(cand))]
				hands := 1 + rng.Intn(n+2)
				p := nextPID()
				dup := int64(0)
				if rng.Chance(0.3) {
					dup = 1
				}
				r.record(sim.Step{Actor: "table", Op: "quiet", Args: []int64{int64(E), int64(hands), int64(p), dup}, Fault: "quiet-window"})
				r.res.Count("fault.quiet-window", 1)
				r.quiet(E, hands, p, dup == 1)
				continue
			}
		}
		var op opSpec
		pickSeat := func(pred func(int) bool) int {
			var c []int
			for s := 0; s < n; s++ {
				if s != stalled && pred(s) {
					c = append(c, s)
				}
			}
			if len(c) == 0 || rng.Chance(0.1) {
				return rng.Intn(n)
			}
			return c[rng.Intn(len(c))]
		}
		switch rng.Weighted(w) {
		case 0:
			op = opSpec{Kind: "join", PID: nextPID()}
			if rng.Chance(0.45) {
				op.Seat = -1
			} else {
				op.Seat = pickSeat(func(s int) bool { return r.mod.occ[s] == 0 })
			}
		case 1:
			op = opSpec{Kind: "leave", Seat: pickSeat(func(s int) bool { return r.mod.occ[s] != 0 })}
		case 2:
			op = opSpec{Kind: "sit", Seat: pickSeat(func(s int) bool { return r.mod.occ[s] != 0 && r.mod.res[s] })}
		case 3:
			op = opSpec{Kind: "reserve", Seat: pickSeat(func(s int) bool { return r.mod.occ[s] != 0 && !r.mod.res[s] })}
		case 4:
			op = opSpec{Kind: "next"}
		}
		if rng.Chance(restartRate) {
			r.res.Count("fault.restart", 1)
			st := stepOf(opSpec{Kind: "restart"})
			st.Fault = "crash-restart"
			r.record(st)
			r.seqOp(opSpec{Kind: "restart"})
			if r.dead {
				break
			}
		}
		fault := ""
		if op.Kind != "next" && rng.Chance(junkRate) {
			op.Seat = []int{-2, -1, n, n + 1, -7, 1 << 20}[rng.Intn(6)]
			fault = "junk-seat"
			r.res.Count("fault.junk-seat", 1)
		}
		// burst: the same client issues several operations back to back
		reps := 1
		if rng.Chance(0.06) {
			reps = 2 + rng.Intn(3)
			r.res.Count("fault.burst", 1)
		}
		for k := 0; k < reps && !r.dead; k++ {
			o := op
			if o.Kind == "join" && k > 0 {
				o.PID = nextPID()
			}
			st := stepOf(o)
			st.Fault = fault
			r.record(st)
			r.seqOp(o)
		}
	}
}

// ---- concurrent mode -------------------------------------------------------------

func (r *run) doConc(op opSpec) opResult { return r.exec(op) }

// spawnRec records and spawns one operation goroutine. In the generated-copy
// variant the goroutine gets its own parking stream; its seed goes into the
// trace so that the replay parks at the same statements.
func (r *run) spawnRec(rng *sim.RNG, actor string, gid int, op opSpec) *gor {
	st := sim.Step{Actor: actor, Op: "go", Args: []int64{int64(gid), int64(op.Seat), int64(op.PID)}, SArgs: []string{op.Kind}}
	seed := uint64(0)
	if r.cfg.Gen {
		seed = rng.Uint64()>>1 | 1
		st.Args = append(st.Args, int64(seed))
	}
	r.record(st)
	return r.concSpawnSeed(gid, op, seed)
}

func (r *run) genConc(rng *sim.RNG) {
	n := r.cfg.Max
	pid := int32(0)
	nextPID := func() int32 { pid++; return pid }
	gid := 0
	bursts := 1 + rng.Intn(3)
	total := 0
	// a populated table first (sequential goroutines), so that Next() has something to do
	if rng.Chance(0.7) {
		m := 2 + rng.Intn(n-1)
		if m > 5 {
			m = 5
		}
		for _, seat := range rng.Perm(n)[:m] {
			for _, op := range []opSpec{{Kind: "join", Seat: seat, PID: nextPID()}, {Kind: "sit", Seat: seat}} {
				if op.Kind == "sit" && rng.Chance(0.15) {
					continue
				}
				gid++
				total++
				g := r.spawnRec(rng, "player", gid, op)
				for r.gState(g) != gFinished && !r.dead {
					r.record(sim.Step{Actor: "sched", Op: "run", Args: []int64{int64(g.id)}})
					if !r.concRun(g.id) {
						break
					}
				}
			}
		}
		if rng.Chance(0.6) {
			gid++
			total++
			g := r.spawnRec(rng, "table", gid, opSpec{Kind: "next"})
			for r.gState(g) != gFinished && !r.dead {
				r.record(sim.Step{Actor: "sched", Op: "run", Args: []int64{int64(g.id)}})
				if !r.concRun(g.id) {
					break
				}
			}
		}
	}
	for b := 0; b < bursts && !r.dead && total < 34; b++ {
		// a few sequential operations between bursts (each is a goroutine run to completion)
		for k := rng.Intn(4); k > 0 && total < 34; k-- {
			op := r.randomOp(rng, nextPID)
			gid++
			total++
			g := r.spawnRec(rng, "player", gid, op)
			for r.gState(g) != gFinished && !r.dead {
				r.record(sim.Step{Actor: "sched", Op: "run", Args: []int64{int64(g.id)}})
				if !r.concRun(g.id) {
					break
				}
			}
		}
		// the burst: k operations in flight at once
		k := 2 + rng.Intn(5)
		r.probe("concurrent-burst")
		kind := rng.Intn(5) // 0 same seat, 1 any seat, 2 mixed joins, 3 mixed everything, 4 next-hand racing with seat changes
		if !r.on("C18") {
			kind = 4
		}
		if r.cfg.Gen && rng.Chance(0.45) {
			// generated-copy variant: 5 the same operation on the same seat
			// several times over (with readers), 6 readers beside seat changes
			kind = 5 + rng.Intn(2)
		}
		sameKind := []string{"reserve", "sit", "leave", "join"}[rng.Intn(4)]
		if kind == 4 && k > 4 {
			k = 2 + rng.Intn(3)
		}
		target := rng.Intn(n)
		if r.cfg.Gen && kind == 5 && sameKind != "join" {
			// aim at a seat somebody holds
			var occ []int
			for i, v := range r.seats() {
				if v.occ {
					occ = append(occ, i)
				}
			}
			if len(occ) > 0 {
				target = occ[rng.Intn(len(occ))]
			}
		}
		if r.cfg.Gen && kind == 6 && rng.Chance(0.5) {
			sameKind = "readers" // only read-only calls, of the kinds that walk the seats
		}
		for j := 0; j < k && total < 40; j++ {
			var op opSpec
			switch kind {
			case 0:
				op = opSpec{Kind: "join", Seat: target, PID: nextPID()}
			case 1:
				op = opSpec{Kind: "join", Seat: -1, PID: nextPID()}
			case 2:
				op = opSpec{Kind: "join", Seat: rng.Intn(n+1) - 1, PID: nextPID()}
			case 4:
				if j == 0 {
					op = opSpec{Kind: "next"}
				} else {
					op = r.randomOp(rng, nextPID)
					if op.Kind == "join" && op.Seat == -1 {
						op.Seat = rng.Intn(n)
					}
				}
			case 5:
				switch {
				case rng.Chance(0.25):
					op = opSpec{Kind: "get", Seat: rng.Intn(8 * n)}
				case sameKind == "join":
					op = opSpec{Kind: "join", Seat: target, PID: nextPID()}
				default:
					op = opSpec{Kind: sameKind, Seat: target}
				}
			case 6:
				if sameKind == "readers" {
					op = opSpec{Kind: "get", Seat: []int{0, 3, 4, 4, 6, 6}[rng.Intn(6)] + 8*rng.Intn(n)}
				} else if rng.Chance(0.6) {
					op = opSpec{Kind: "get", Seat: rng.Intn(8 * n)}
				} else {
					op = r.randomOp(rng, nextPID)
				}
			default:
				op = r.randomOp(rng, nextPID)
			}
			gid++
			total++
			r.spawnRec(rng, "player", gid, op)
		}
		// the schedule: release one parked goroutine at a time, PRNG-chosen
		for steps := 0; !r.dead; steps++ {
			p := r.sc.parked()
			if len(p) == 0 {
				break
			}
			if r.cfg.Gen {
				// everybody still in flight keeps failing to take the lock:
				// nobody will ever release it
				// (each of them has tried again since anybody last executed a
				// statement or returned)
				stuck := true
				now := atomic.LoadInt64(&r.sc.progress)
				for _, g := range p {
					if g.label != "blocked" || g.failAt != now {
						stuck = false
					}
				}
				if stuck {
					r.viol("C18", "operations-never-return (deadlock)", fmt.Sprintf("%d operations keep failing to take the seat manager's lock and nothing else is left to run", len(p)))
					r.dead = true
					break
				}
				if steps > 40000 {
					r.res.Fault = "watchdog: burst did not finish within 40000 scheduling steps"
					r.dead = true
					break
				}
			}
			g := p[rng.Intn(len(p))]
			r.record(sim.Step{Actor: "sched", Op: "run", Args: []int64{int64(g.id)}})
			r.concRun(g.id)
		}
		r.concQuiesce()
		if r.cfg.Gen && !r.dead && total < 40 && rng.Chance(0.6) {
			// the next hand: whatever the burst left behind in derived state
			// (counters, cached lists) shows in where the button goes; a
			// single call is compared with the same call on a restored replica
			gid++
			total++
			g := r.spawnRec(rng, "table", gid, opSpec{Kind: "next"})
			for r.gState(g) != gFinished && !r.dead {
				r.record(sim.Step{Actor: "sched", Op: "run", Args: []int64{int64(g.id)}})
				if !r.concRun(g.id) {
					break
				}
			}
		}
	}
	r.concFinish()
}

func (r *run) randomOp(rng *sim.RNG, nextPID func() int32) opSpec {
	n := r.cfg.Max
	if r.cfg.Gen && rng.Chance(0.15) {
		return opSpec{Kind: "get", Seat: rng.Intn(8 * n)}
	}
	switch rng.Weighted([]int{40, 20, 20, 5, 15}) {
	case 0:
		return opSpec{Kind: "join", Seat: rng.Intn(n+1) - 1, PID: nextPID()}
	case 1:
		return opSpec{Kind: "leave", Seat: rng.Intn(n)}
	case 2:
		return opSpec{Kind: "sit", Seat: rng.Intn(n)}
	case 3:
		return opSpec{Kind: "reserve", Seat: rng.Intn(n)}
	}
	return opSpec{Kind: "next"}
}

func (r *run) gState(g *gor) int32 {
	if g == nil {
		return gFinished
	}
	return g.stateNow()
}

func (r *run) findG(id int) *gor {
	for _, g := range r.sc.gs {
		if g.id == id {
			return g
		}
	}
	return nil
}

func (r *run) concSpawn(id int, op opSpec) *gor { return r.concSpawnSeed(id, op, 0) }

func (r *run) concSpawnSeed(id int, op opSpec, parkSeed uint64) *gor {
	r.clock++
	if r.sc.unfinished() == 0 {
		if len(r.burstOps) > 0 {
			r.burstDone()
		}
		r.burstSnap = r.snapshot(r.m)
	}
	g := r.sc.spawn(id, op, r.doConc, parkSeed)
	r.burstOps = append(r.burstOps, g)
	if r.sc.fault != "" {
		r.res.Fault = r.sc.fault
		r.dead = true
	}
	return g
}

// concRun releases goroutine id for one scheduling step.
func (r *run) concRun(id int) bool {
	g := r.findG(id)
	if g == nil || g.stateNow() != gParked {
		return false
	}
	r.clock++
	r.res.Steps++
	if !g.started {
		g.started = true
		g.call = r.clock
	}
	before := map[int]bool{}
	for _, x := range r.sc.gs {
		before[x.id] = x.stateNow() == gFinished
	}
	r.sc.release(g)
	if r.sc.fault != "" {
		r.res.Fault = r.sc.fault
		r.dead = true
		return false
	}
	// every goroutine that finished during this step returns now
	for _, x := range r.sc.gs {
		if x.stateNow() == gFinished && !before[x.id] && x.ret < 0 {
			r.clock++
			x.ret = r.clock
			r.finished(x)
		}
	}
	if r.sc.unfinished() == 0 && len(r.burstOps) > 0 {
		r.burstDone()
	}
	h := sim.Mix(sim.HashString(g.label), uint64(len(r.sc.parked())), uint64(r.sc.unfinished()))
	if !r.seenT[h] {
		r.seenT[h] = true
		r.res.Trans = append(r.res.Trans, h)
		r.res.States = append(r.res.States, h)
	}
	return true
}

func (r *run) finished(g *gor) {
	if r.opt.KeepLog {
		r.res.Log = append(r.res.Log, sim.Mix(sim.HashString(g.op.Kind+g.res.Err+g.res.Panic), uint64(g.id), uint64(g.res.Seat+7), uint64(g.call), uint64(g.ret)))
	}
	r.res.Count("op."+g.op.Kind+"."+map[bool]string{true: "ok", false: "refused"}[g.res.Err == "" && g.res.Panic == ""], 1)
	if g.res.Panic != "" {
		r.viol("C18", fmt.Sprintf("panic: %s", panicClass(g.op, r.cfg.Max)), fmt.Sprintf("%+v panicked: %s", g.op, g.res.Panic))
	}
	if g.op.Kind == "join" && g.res.Err == "" && g.res.Panic == "" {
		r.joins++
	}
	if g.op.Kind == "leave" && g.res.Err == "" && g.res.Panic == "" {
		r.leaves++
	}
	r.hist = append(r.hist, porcupine.Operation{ClientId: g.id, Input: g.op, Call: int64(g.call), Output: g.res, Return: int64(g.ret)})
}

// concQuiesce: everything released has finished or the run is deadlocked;
// at quiescence occupancy and count must be consistent.
func (r *run) concQuiesce() {
	if r.dead {
		return
	}
	if r.sc.unfinished() > 0 && len(r.sc.parked()) == 0 {
		r.viol("C18", "operations-never-return (deadlock)", fmt.Sprintf("%d operations blocked on the seat manager's lock with nothing left to run", r.sc.unfinished()))
		r.dead = true
		return
	}
	v := r.seats()
	seen := map[int32]int{}
	cnt := 0
	for i, s := range v {
		if s.occ {
			cnt++
			seen[s.who]++
			if seen[s.who] > 1 {
				r.viol("C18", "player-seated-twice", fmt.Sprintf("player %d holds more than one seat (seat %d)", s.who, i))
			}
		}
	}
	if c := r.m.GetPlayerCount(); c != r.joins-r.leaves || c != cnt {
		r.viol("C18", "player-count", fmt.Sprintf("GetPlayerCount=%d, occupied seats=%d, successful joins-leaves=%d", c, cnt, r.joins-r.leaves))
	}
	// every successful join's player must be on the seat it was given,
	// unless a later leave freed it: checked by linearizability below
}

var seatModel = porcupine.Model{
	Init: func() interface{} { return model{} },
	Step: func(state, input, output interface{}) (bool, interface{}) {
		m := state.(model)
		ok, _ := m.step(input.(opSpec), output.(opResult))
		return ok, m
	},
	Equal:             func(a, b interface{}) bool { return a.(model) == b.(model) },
	DescribeOperation: func(in, out interface{}) string { return fmt.Sprintf("%+v -> %+v", in, out) },
}

func (r *run) concFinish() {
	if r.dead && r.res.Fault != "" {
		return
	}
	// drain: anything still parked runs to completion in id order
	limit := 400
	if r.cfg.Gen {
		limit = 40000
	}
	for guard := 0; guard < limit && !r.dead; guard++ {
		p := r.sc.parked()
		if len(p) == 0 {
			break
		}
		// in turn (a goroutine waiting for the lock must not starve its holder)
		r.concRun(p[guard%len(p)].id)
	}
	if r.cfg.Gen && r.sc.unfinished() > 0 {
		// only a shortened replay gets here: operations still in flight may
		// hold the lock, so the seat manager cannot be examined any further
		r.dead = true
		return
	}
	r.concQuiesce()
	if !r.on("C18") || len(r.hist) == 0 {
		return
	}
	if len(r.hist) > 40 {
		r.res.Inconclusive++
		return
	}
	mdl := seatModel
	n := r.cfg.Max
	mdl.Init = func() interface{} { return model{n: n} }
	res := porcupine.CheckOperationsTimeout(mdl, r.hist, r.lincheckBudget())
	switch res {
	case porcupine.Illegal:
		r.viol("C18", "history-not-linearizable", fmt.Sprintf("no sequential order of %d seat operations explains the results: %s", len(r.hist), r.histString()))
	case porcupine.Unknown:
		r.res.Inconclusive++
	}
	// final occupancy must be explained too: append one read per seat
	if res == porcupine.Ok {
		v := r.seats()
		final := model{n: n}
		for i, s := range v {
			if s.occ {
				final.occ[i] = s.who
			}
		}
		ops := append([]porcupine.Operation{}, r.hist...)
		r.clock++
		ops = append(ops, porcupine.Operation{ClientId: 9999, Input: opSpec{Kind: "read"}, Call: int64(r.clock), Output: final, Return: int64(r.clock + 1)})
		rm := mdl
		rm.Step = func(state, input, output interface{}) (bool, interface{}) {
			m := state.(model)
			in := input.(opSpec)
			if in.Kind == "read" {
				f := output.(model)
				for i := 0; i < m.n; i++ {
					if m.occ[i] != f.occ[i] {
						return false, m
					}
				}
				return true, m
			}
			ok, _ := m.step(in, output.(opResult))
			return ok, m
		}
		if porcupine.CheckOperationsTimeout(rm, ops, r.lincheckBudget()) == porcupine.Illegal {
			r.viol("C18", "final-occupancy-not-explained", fmt.Sprintf("the seat map at quiescence matches no linearization: %s", r.histString()))
		}
	}
}

func (r *run) lincheckBudget() time.Duration {
	if r.cfg.Gen {
		return 5 * time.Second
	}
	return 20 * time.Second
}

func (r *run) histString() string {
	s := ""
	for _, o := range r.hist {
		s += fmt.Sprintf("[%d..%d %+v -> %+v] ", o.Call, o.Return, o.Input, o.Output)
	}
	return s
}

// ---- replay -------------------------------------------------------------------------

func (w World) Replay(c *sim.Case, o sim.Options) *sim.Result {
	var cfg Cfg
	if err := json.Unmarshal(c.Config, &cfg); err != nil {
		return &sim.Result{Fault: "bad config: " + err.Error()}
	}
	if cfg.Max < 1 || cfg.Max > maxSeats {
		return &sim.Result{Fault: "bad table size"}
	}
	if cfg.Gen && !GenAvailable() {
		return &sim.Result{Fault: "this replay file needs the binary built over the generated copy (./verif.sh replay builds it)"}
	}
	r := newRun(&cfg, o)
	cc := c.Clone()
	for i := range c.Steps {
		if r.dead {
			break
		}
		st := c.Steps[i]
		r.steps = append(r.steps, st)
		switch {
		case st.Op == "quiet":
			if len(st.Args) >= 3 {
				r.quiet(int(st.Args[0]), int(st.Args[1]), int32(st.Args[2]), len(st.Args) > 3 && st.Args[3] == 1)
			}
		case st.Op == "go":
			if cfg.Mode == "conc" && len(st.Args) >= 3 && len(st.SArgs) == 1 && r.findG(int(st.Args[0])) == nil {
				seed := uint64(0)
				if len(st.Args) > 3 {
					seed = uint64(st.Args[3])
				}
				r.concSpawnSeed(int(st.Args[0]), opSpec{Kind: st.SArgs[0], Seat: int(st.Args[1]), PID: int32(st.Args[2])}, seed)
			}
		case st.Op == "run":
			if cfg.Mode == "conc" && len(st.Args) >= 1 {
				r.concRun(int(st.Args[0]))
			}
		default:
			if cfg.Mode == "seq" {
				r.seqOp(opOf(&st))
			}
		}
	}
	if cfg.Mode == "conc" {
		r.concFinish()
	}
	cc.Steps = r.steps
	r.res.Case = cc
	sm.VerifYield, sm.VerifOrder = nil, nil
	installGen(nil, nil)
	return r.res
}

func (w World) Simplify(c *sim.Case) []*sim.Case {
	var out []*sim.Case
	var cfg Cfg
	if json.Unmarshal(c.Config, &cfg) != nil {
		return nil
	}
	if cfg.Max > 2 && cfg.Mode == "seq" {
		k := cfg
		k.Max--
		x := c.Clone()
		x.Config, _ = json.Marshal(&k)
		out = append(out, x)
	}
	for i, s := range c.Steps {
		if s.Op == "quiet" && len(s.Args) >= 2 && s.Args[1] > 1 {
			x := c.Clone()
			x.Steps[i].Args[1]--
			out = append(out, x)
		}
		if s.Op == "join" && len(s.Args) >= 1 && s.Args[0] == -1 {
			// "any seat" -> each specific seat
			for t := 0; t < cfg.Max; t++ {
				x := c.Clone()
				x.Steps[i].Args[0] = int64(t)
				out = append(out, x)
			}
		}
		if s.Fault != "" {
			x := c.Clone()
			x.Steps[i].Fault = ""
			out = append(out, x)
		}
	}
	return out
}

// ---- sequential equivalence of a concurrent burst --------------------------------

func (r *run) snapshot(m *sm.SeatManager) *sm.SeatManagerState {
	st := &sm.SeatManagerState{Max: r.cfg.Max, Seats: map[int]*sm.Seat{}, Dealer: seatID(m.Dealer()), SB: seatID(m.SmallBlind()), BB: seatID(m.BigBlind())}
	for _, s := range m.GetSeats() {
		c := *s
		st.Seats[s.ID] = &c
	}
	return st
}

func cloneSnap(st *sm.SeatManagerState) *sm.SeatManagerState {
	c := &sm.SeatManagerState{Max: st.Max, Seats: map[int]*sm.Seat{}, Dealer: st.Dealer, SB: st.SB, BB: st.BB}
	for k, v := range st.Seats {
		x := *v
		c.Seats[k] = &x
	}
	return c
}

type outcome struct {
	seats     []seatView
	d, sb, bb int
}

func observeOutcome(m *sm.SeatManager) outcome {
	o := outcome{d: seatID(m.Dealer()), sb: seatID(m.SmallBlind()), bb: seatID(m.BigBlind())}
	for _, s := range m.GetSeats() {
		v := seatView{occ: s.Player != nil, active: s.IsActive, reserved: s.IsReserved}
		if p, ok := s.Player.(int32); ok {
			v.who = p
		}
		o.seats = append(o.seats, v)
	}
	return o
}

// burstDone is called when no operation is in flight any more. For small
// bursts without "any seat" joins (whose pick depends on the random source)
// the concurrent outcome - every result, the seat map, the positions - must
// be the outcome of SOME sequential order of the same operations on the same
// code, respecting real-time order. This is what makes a Next() that is not
// atomic (positions computed from a seat map that changed under it) visible.
func (r *run) burstDone() {
	ops := r.burstOps
	snap := r.burstSnap
	r.burstOps, r.burstSnap = nil, nil
	minOps := 2
	if r.cfg.Gen {
		minOps = 1 // what went wrong in a burst may only show in the next call
	}
	if r.dead || snap == nil || len(ops) < minOps || len(ops) > 5 {
		return
	}
	hasNext := false
	for _, g := range ops {
		if g.op.Kind == "join" && g.op.Seat == -1 {
			return
		}
		if g.res.Panic != "" {
			return // reported as a panic already
		}
		if g.op.Kind == "next" {
			hasNext = true
		}
	}
	_ = hasNext
	r.probe("burst-checked-against-sequential-orders")
	got := observeOutcome(r.m)
	n := len(ops)
	perm := make([]int, n)
	used := make([]bool, n)
	okC18, okC17, okC08 := false, false, false
	var try func(k int)
	try = func(k int) {
		if okC08 {
			return
		}
		if k == n {
			rep := sm.NewSeatManager(r.cfg.Max)
			rep.ApplyStates(cloneSnap(snap))
			save := r.m
			r.m = rep
			match := true
			for _, i := range perm {
				res := r.exec(ops[i].op)
				if res != ops[i].res {
					match = false
					break
				}
			}
			r.m = save
			if !match {
				return
			}
			o := observeOutcome(rep)
			for i := range o.seats {
				if o.seats[i].occ != got.seats[i].occ || o.seats[i].who != got.seats[i].who || o.seats[i].reserved != got.seats[i].reserved {
					return
				}
			}
			okC18 = true
			if o.d != got.d {
				return
			}
			okC17 = true
			if o.sb != got.sb || o.bb != got.bb {
				return
			}
			for i := range o.seats {
				if o.seats[i].active != got.seats[i].active {
					return
				}
			}
			okC08 = true
			return
		}
		for i := 0; i < n; i++ {
			if used[i] {
				continue
			}
			// real-time order: an operation that returned before another was
			// invoked must come first
			okOrder := true
			for j := 0; j < n; j++ {
				if !used[j] && j != i && ops[j].ret >= 0 && ops[i].call >= 0 && ops[j].ret < ops[i].call {
					okOrder = false
				}
			}
			if !okOrder {
				continue
			}
			used[i] = true
			perm[k] = i
			try(k + 1)
			used[i] = false
		}
	}
	try(0)
	desc := ""
	for _, g := range ops {
		desc += fmt.Sprintf("[%d..%d %+v -> %+v] ", g.call, g.ret, g.op, g.res)
	}
	desc += fmt.Sprintf("=> dealer %d sb %d bb %d seats %v", got.d, got.sb, got.bb, got.seats)
	switch {
	case !okC18:
		r.viol("C18", "concurrent-outcome-matches-no-sequential-order", "results / seat map: "+desc)
	case !okC17:
		r.viol("C17", "concurrent-outcome-matches-no-sequential-order", "dealer: "+desc)
	case !okC08:
		r.viol("C08", "concurrent-outcome-matches-no-sequential-order", "blinds / active seats: "+desc)
	}
}
