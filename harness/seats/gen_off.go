//go:build !verifyield

package seats

// GenAvailable reports whether this binary was built over the generated copy.
func GenAvailable() bool { return false }

func installGen(h func(fid int), b func()) {}

func genFuncName(fid int) string { return "" }
