// Package seats is world S: seat_manager.SeatManager driven by simulated
// players and the table loop, in interleaved (single goroutine) mode and in
// concurrent mode (one real goroutine per operation under a scheduler that
// releases exactly one goroutine at a time at the yield hooks).
package seats

import (
	"errors"
	"fmt"

	sm "github.com/weedbox/pokerface/seat_manager"
)

const maxSeats = 12

// model is the sequential reference: per seat an occupant id (0 = empty)
// and the reserved flag. The active flag is implementation detail and is
// read from the real object where an oracle needs it.
type model struct {
	n   int
	occ [maxSeats]int32
	res [maxSeats]bool
}

type opSpec struct {
	Kind string // join | leave | sit | reserve | next
	Seat int
	PID  int32
}

type opResult struct {
	Seat  int    // seat returned by join
	Err   string // "" = nil
	Panic string
	Val   string // what a read-only call ("get") returned
}

func errName(err error) string {
	if err == nil {
		return ""
	}
	// errors.Is: an error may be wrapped or carry context
	switch {
	case errors.Is(err, sm.ErrNotFoundSeat):
		return "ErrNotFoundSeat"
	case errors.Is(err, sm.ErrNoAvailableSeat):
		return "ErrNoAvailableSeat"
	case errors.Is(err, sm.ErrNotAvailable):
		return "ErrNotAvailable"
	case errors.Is(err, sm.ErrInvalidSeat):
		return "ErrInvalidSeat"
	case errors.Is(err, sm.ErrInsufficientNumberOfPlayers):
		return "ErrInsufficientNumberOfPlayers"
	case errors.Is(err, sm.ErrEmptySeat):
		return "ErrEmptySeat"
	}
	return "error:" + err.Error()
}

func (m *model) inRange(s int) bool { return s >= 0 && s < m.n }

func (m *model) available() int {
	k := 0
	for i := 0; i < m.n; i++ {
		if m.occ[i] == 0 && !m.res[i] {
			k++
		}
	}
	return k
}

func (m *model) count() int {
	k := 0
	for i := 0; i < m.n; i++ {
		if m.occ[i] != 0 {
			k++
		}
	}
	return k
}

// step applies op with the observed result; it reports whether the result
// is one the sequential specification allows, and why not.
func (m *model) step(op opSpec, r opResult) (bool, string) {
	if r.Panic != "" {
		return false, "panic"
	}
	switch op.Kind {
	case "join":
		if op.Seat >= 0 {
			if !m.inRange(op.Seat) {
				if r.Err == "" {
					return false, "join of an out-of-range seat accepted"
				}
				return true, ""
			}
			if m.occ[op.Seat] != 0 {
				if r.Err == "" {
					return false, "join of an occupied seat accepted"
				}
				return true, ""
			}
			if r.Err != "" {
				// an empty seat that somebody reserved may be kept for him
				if m.res[op.Seat] {
					return true, ""
				}
				return false, "join of an empty seat refused (" + r.Err + ")"
			}
			if r.Seat != op.Seat {
				return false, fmt.Sprintf("join of seat %d returned seat %d", op.Seat, r.Seat)
			}
			m.occ[op.Seat], m.res[op.Seat] = op.PID, true
			return true, ""
		}
		if op.Seat < -1 {
			if r.Err == "" {
				return false, "join of an out-of-range seat accepted"
			}
			return true, ""
		}
		// any seat
		if r.Err != "" {
			if m.available() > 0 {
				return false, "join-any refused (" + r.Err + ") although a seat is available"
			}
			return true, ""
		}
		if !m.inRange(r.Seat) {
			return false, fmt.Sprintf("join-any returned seat %d", r.Seat)
		}
		if m.occ[r.Seat] != 0 {
			return false, fmt.Sprintf("join-any put the player on occupied seat %d", r.Seat)
		}
		if m.res[r.Seat] {
			return false, fmt.Sprintf("join-any put the player on reserved seat %d", r.Seat)
		}
		m.occ[r.Seat], m.res[r.Seat] = op.PID, true
		return true, ""
	case "leave":
		if !m.inRange(op.Seat) || m.occ[op.Seat] == 0 {
			if r.Err == "" {
				return false, "leave of an empty or out-of-range seat accepted"
			}
			return true, ""
		}
		if r.Err != "" {
			return false, "leave of an occupied seat refused (" + r.Err + ")"
		}
		m.occ[op.Seat], m.res[op.Seat] = 0, false
		return true, ""
	case "sit", "reserve":
		if !m.inRange(op.Seat) {
			if r.Err == "" {
				return false, op.Kind + " of an out-of-range seat accepted"
			}
			return true, ""
		}
		if r.Err != "" {
			// nothing says that an EMPTY seat can be reserved or sat in:
			// refusing that (without effect) is as good as accepting it
			if m.occ[op.Seat] == 0 {
				return true, ""
			}
			return false, op.Kind + " refused (" + r.Err + ")"
		}
		m.res[op.Seat] = op.Kind == "reserve"
		return true, ""
	case "next", "get":
		// positions and active flags are not modelled; C08/C17 judge them
		// (a read-only call changes nothing; what it returned is compared
		// with the sequential orders of its burst)
		return true, ""
	case "restart":
		if r.Err != "" {
			return false, "restoring the seat map failed (" + r.Err + ")"
		}
		return true, ""
	}
	return false, "unknown op"
}
