#!/bin/bash
# tools/seeded_matrix.sh [tier] [name...] - with names: re-run only those changes and replace / add their rows.
# tools/seeded_matrix.sh [tier]  - run every seeded change under /verif/seeded against the check of the
# property it breaks; prints one line per change and writes seeded/RESULTS.md (in the current /verif tree).
cd "$(dirname "$0")/.."
tier="${1:-quick}"
out=seeded/RESULTS.md
shift
if [ $# -gt 0 ]; then
  only=" $* "
  grep -v "^| \($(echo "$@" | sed 's/ /\\|/g')\) |" $out > $out.tmp
else
only=""
{
echo "# Seeded breaking changes vs. checks ($tier tier)"
echo
echo "| change | property | check exit | first signature reported |"
echo "|---|---|---|---|"
} > $out.tmp
fi
for d in seeded/*/; do
  n=$(basename $d); p=${n:0:3}
  if [ -n "$only" ] && [[ "$only" != *" $n "* ]]; then continue; fi
  [ -f $d/patch.diff ] || continue
  res=$(tools/mutant.sh $d/patch.diff $p $tier 2>&1)
  rc=$(echo "$res" | grep -o 'exit=[0-9]*' | tail -1 | cut -d= -f2)
  sig=$(echo "$res" | grep -o 'minimising the first: [^:]*' | head -1 | sed 's/minimising the first: //')
  note=""
  if [ "$rc" != "1" ] && [ -f $d/meta.json ]; then
    # caught by the check of a neighbouring property?
    for q in $(python3 -c "import json,sys; print(' '.join(c['property'] for c in json.load(open('$d/meta.json'))['checks_run'] if c['property']!='$p' and c['exit']==1))" 2>/dev/null); do
      res2=$(tools/mutant.sh $d/patch.diff $q $tier 2>&1)
      rc2=$(echo "$res2" | grep -o 'exit=[0-9]*' | tail -1 | cut -d= -f2)
      sig2=$(echo "$res2" | grep -o 'minimising the first: [^:]*' | head -1 | sed 's/minimising the first: //')
      note="$note; check $q exit=$rc2 $sig2"
    done
  fi
  if [ "$rc" != "1" ] && [ -f $d/meta.json ]; then
    extra=$(python3 -c "import json; print(json.load(open('$d/meta.json')).get('note',''))" 2>/dev/null)
    [ -n "$extra" ] && note="$note; $extra"
  fi
  echo "$n $p exit=$rc $sig$note"
  echo "| $n | $p | $rc | $sig$note |" >> $out.tmp
done
if [ -n "$only" ]; then { head -4 $out.tmp; tail -n +5 $out.tmp | sort; } > $out.tmp2; mv $out.tmp2 $out.tmp; fi
mv $out.tmp $out
