#!/bin/bash
# tools/sweep.sh <tier> <seed>...   run every claimed check with each seed; print one line per (property, seed)
tier="$1"; shift
bad=0
cd "$(dirname "$0")/.."
for seed in "$@"; do
  for p in C01 C02 C04 C05 C06 C07 C08 C09 C10 C11 C12 C13 C14 C15 C16 C17 C18 C19 C20; do
    out=$(VERIF_SEED=$seed ./verif.sh check $p $tier 2>&1); rc=$?
    echo "seed=$seed $p exit=$rc $(echo "$out" | grep -c KNOWN-FINDING) known; $(echo "$out" | tail -1 | cut -c1-150)"
    if [ $rc -ne 0 ]; then bad=1; echo "$out" | grep -v "^  step" | cut -c1-600 | head -20; fi
  done
done
exit $bad
