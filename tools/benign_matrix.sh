#!/bin/bash
# tools/benign_matrix.sh [tier] - every property-preserving change under /verif/benign must leave every check at exit 0
cd "$(dirname "$0")/.."
for d in benign/[A-Z]*/; do tools/benign_eval.sh $d/patch.diff "${1:-quick}" 2>&1 | grep "ALARM\|BENIGN"; done
