#!/bin/bash
# tools/benign_matrix.sh [tier] [k n] - every property-preserving change under /verif/benign must leave every check at exit 0
# (BENIGN_PROPS restricts the checks; "k n" runs the k-th of n interleaved shares, for parallel streams)
cd "$(dirname "$0")/.."
k="${2:-0}"; n="${3:-1}"; i=0
for d in benign/[A-Z]*/; do
  if [ $((i % n)) -eq "$k" ]; then tools/benign_eval.sh $d/patch.diff "${1:-quick}" 2>&1 | grep "ALARM\|BENIGN"; fi
  i=$((i+1))
done
