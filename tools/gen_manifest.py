#!/usr/bin/env python3
"""Regenerates /verif/MANIFEST.json from the table below (keeps it schema-valid)."""
import json, subprocess, sys

E = "world E (one hold'em hand: simulated clients + faulty transport + stateless server with warm / cold-restart / NativeBackend-hop execution + never-restarted shadow)"
S = "world S (seat manager: simulated players and table loop; interleaved mode and real-goroutine mode under a one-at-a-time scheduler with yield hooks)"
R = "world R (regulator: simulated instruction-following tables, registrar, director, transport with delayed releases)"

checks = {
 "C01": (E, "7/C01", "chip invariants (bankroll identity, non-negativity, round pot, published pots, zero-sum result) evaluated after every delivered operation - accepted, refused, duplicated, stale, post-restart - of every simulated hand; plus world Y: the same hands played by 2-3 concurrent goroutines over a generated copy of the working tree with a scheduling point before every engine statement, one goroutine at a time under the PRNG, each hand compared with itself run alone"),
 "C02": (E, "7/C02", "independent per-pot reference settlement computed from (contribution, fold, strength) at every GameClosed reached by simulated play; tie-rich rigged decks; contribution vectors are those arising from play; plus world Y: the same hands played by 2-3 concurrent goroutines over a generated copy of the working tree with a scheduling point before every engine statement, one goroutine at a time under the PRNG, each hand compared with itself run alone"),
 "C04": (E, "7/C04", "turn-order predicates at every wait point plus refusal-without-effect for every illegitimate delivery produced by transport faults and byzantine clients, and a sampled cross product (seat x operation) probed on a cold-restarted clone at every wait point; plus world Y: the same hands played by 2-3 concurrent goroutines over a generated copy of the working tree with a scheduling point before every engine statement, one goroutine at a time under the PRNG, each hand compared with itself run alone"),
 "C05": (E, "7/C05", "harness-side tracking of 'had a turn since the last increase' and laps since the last aggression, checked at every round close / street transition of every simulated hand; plus world Y: the same hands played by 2-3 concurrent goroutines over a generated copy of the working tree with a scheduling point before every engine statement, one goroutine at a time under the PRNG, each hand compared with itself run alone"),
 "C06": (E, "7/C06", "awaited-step model (the single awaited step succeeds), street order, result-iff-closed, Start() validation on invalid configurations, bounded progress to GameClosed once faults stop (including the staller strategy that never moves a chip), no state ever repeats after an accepted operation (no cycle), a closed hand refuses the full seat x operation cross product; plus world Y: the same hands played by 2-3 concurrent goroutines over a generated copy of the working tree with a scheduling point before every engine statement, one goroutine at a time under the PRNG, each hand compared with itself run alone"),
 "C07": (E, "7/C07", "crash consistency: the primary is rebuilt from its JSON (cold restart, server crash before/after the state is durable) or driven through table.NativeBackend at PRNG-chosen deliveries and compared, state and error, with a never-restarted in-memory shadow after every delivery; backend input immutability; hands created through the backend; determinism clause by twin execution (a hand with the other ranking table played first on the same deck vs. the suit-rotated deck) and neighbour hands in the same process; plus world Y: the same hands played by 2-3 concurrent goroutines over a generated copy of the working tree with a scheduling point before every engine statement, one goroutine at a time under the PRNG, each hand compared with itself run alone"),
 "C10": (E, "7/C10", "independent evaluator over all admissible five-card selections for every street dealt in simulated hands (2-hole and 4-hole/2-required, both decks), including after restarts; plus world Y: the same hands played by 2-3 concurrent goroutines over a generated copy of the working tree with a scheduling point before every engine statement, one goroutine at a time under the PRNG, each hand compared with itself run alone"),
 "C11": (E, "7/C11", "situation-to-offer implications at every RoundStarted wait point and effect checks on every accepted action, with stacks drawn around every boundary; plus world Y: the same hands played by 2-3 concurrent goroutines over a generated copy of the working tree with a scheduling point before every engine statement, one goroutine at a time under the PRNG, each hand compared with itself run alone"),
 "C12": (E, "7/C12", "independent min-raise tracking under all defensible readings (lo/hi) from observed effects; hostile amounts (negative, 0, tiny, boundary, huge) from byzantine and honest clients; chip bounds after every delivery; plus world Y: the same hands played by 2-3 concurrent goroutines over a generated copy of the working tree with a scheduling point before every engine statement, one goroutine at a time under the PRNG, each hand compared with itself run alone"),
 "C13": (E, "7/C13", "forced-bet postconditions on the state the first betting round opens from, for every simulated hand; stacks drawn below / at / above every forced amount; dead small blind, dealer blind, ante-only games; plus world Y: the same hands played by 2-3 concurrent goroutines over a generated copy of the working tree with a scheduling point before every engine statement, one goroutine at a time under the PRNG, each hand compared with itself run alone"),
 "C14": (E, "7/C14", "deck-prefix accounting (hole + board + burned = consumed top of the deck pinned in place, no duplicate, shapes per street, dealt cards immutable) after every delivery, also while neighbour hands are started in the same process; hole/required combinations 2/0, 4/2, 2/2, 3/2, 4/0; shuffle is a permutation; plus world Y: the same hands played by 2-3 concurrent goroutines over a generated copy of the working tree with a scheduling point before every engine statement, one goroutine at a time under the PRNG, each hand compared with itself run alone"),
 "C15": (E, "7/C15", "field-agnostic taint scan of the JSON of every redacted view (observer and seats) at every state reached, hidden evaluations, own seat and public information unchanged; plus world Y: the same hands played by 2-3 concurrent goroutines over a generated copy of the working tree with a scheduling point before every engine statement, one goroutine at a time under the PRNG, each hand compared with itself run alone"),
 "C16": (E, "7/C16", "pot partition predicates at every publication point (ante, every RoundClosed, GameClosed) of every simulated hand; contribution vectors are those arising from play; plus world Y: the same hands played by 2-3 concurrent goroutines over a generated copy of the working tree with a scheduling point before every engine statement, one goroutine at a time under the PRNG, each hand compared with itself run alone"),
}

def entry(pid, world, ref, text):
    return {
        "property_id": pid,
        "quick_cmd": f"./verif.sh check {pid} quick",
        "thorough_cmd": f"./verif.sh check {pid} thorough",
        "evidence_file": f"/verif/evidence/{pid}.json",
        "replay_cmd_template": "./verif.sh replay {path}",
        "engine": "simcheck",
        "level_claimed": {
            "category": "exploration",
            "text": text + ". Seeded search over schedules, fault sequences, configurations and decks; a clean batch is evidence, not proof.",
            "design_ref": "DESIGN.md section " + ref,
        },
        "level_note": "Trusted base: the harness (sim core, " + world + ", oracles written from the property text), Go toolchain. Assumes the simulated parties cover the ways real callers reach the code; samples, does not enumerate.",
        "technique": "deterministic simulation with fault injection (seeded schedules and faults, invariant oracles after every delivered event, minimised replay files)",
    }

extra = {}
try:
    extra = json.load(open("/verif/tools/manifest_extra.json"))
except Exception:
    pass
for k, v in extra.get("checks", {}).items():
    w = {"E": E, "S": S, "R": R}[v["world"]]
    checks[k] = (w, v["ref"], v["text"])

hooks_commits = extra.get("hook_commits", [])
m = {
    "version": 1,
    "setup_cmd": "./verif.sh setup",
    "hooks": {
        "guard": "verif (Go build tag)",
        "enable": "checks build the harness with `go build -tags verif` against /repo's working tree (replace github.com/weedbox/pokerface => /repo)",
        "baseline_off_cmd": "cd /repo && GOFLAGS=-mod=mod GOPROXY=off GOSUMDB=off go test -vet=off -count=1 -json ./combination/... ./pot/... ./regulator/... ./settlement/... ./testcases/...",
        "source_commits": hooks_commits,
        "add_only": True,
    },
    "engines": [
        {"name": "simcheck", "path": "/verif/harness", "serves_properties": sorted(checks.keys()),
         "kind_free_text": "deterministic simulator in Go: one PRNG per run from VERIF_SEED, discrete-event loop on virtual time, faulty transport, crash/restart/backend-hop server, controlled goroutine scheduler (yield hooks in seat_manager; generated scheduling points at every engine statement for concurrent hands, cmd/yieldgen), shuffle-seed seam, explicit PRNG-free traces, delta-debugging minimiser, replay executor"},
    ],
    "checks": [entry(k, *checks[k]) for k in sorted(checks.keys())],
    "not_applicable": extra.get("not_applicable", []),
    "notes": "See DESIGN.md. known_findings.txt lists recorded and repaired defects; replays/ receives minimised replay files.",
}
json.dump(m, open("/verif/MANIFEST.json", "w"), indent=1)
print("wrote MANIFEST.json with", len(m["checks"]), "checks")
