#!/bin/bash
# tools/seed_eval.sh <seed-out-dir> <name> <prop> [more props...]
# 1. confirms a seeded change in a scratch worktree: applies, builds, stable tests pass, demo fails with / passes without
# 2. runs the named property checks against it (scratch copy via tools/mutant.sh)
# 3. stores it as /verif/seeded/<name>/ {patch.diff, demo, README.md, meta.json}
set -u
SRC="$1"; NAME="$2"; shift 2; PROPS="$@"
export GOFLAGS=-mod=mod GOPROXY=off GOSUMDB=off GOTOOLCHAIN=local
WT="$(mktemp -d /tmp/seedwt-XXXXXX)"; rmdir "$WT"
git -C /repo worktree add -q --detach "$WT" HEAD || exit 3
cleanup() { git -C /repo worktree remove --force "$WT" 2>/dev/null; rm -rf "$WT"; }
trap cleanup EXIT
demo=""; place=""; run=""
if [ -f "$SRC/main.go" ]; then demo=main.go; place="cmd_demo/main.go"; run="go run ./cmd_demo"; fi
if [ -d "$SRC/cmd_demo" ]; then demo=cmd_demo; place="cmd_demo"; run="go run ./cmd_demo"; grep -q -- "-tags verif" "$SRC/README.md" && run="go run -tags verif ./cmd_demo"; fi
for f in "$SRC"/*_test.go; do [ -f "$f" ] || continue; demo="$(basename "$f")"
  pk=$(grep -m1 '^package ' "$f" | awk '{print $2}')
  case "$pk" in
    regulator|regulator_test) pkgdir=regulator;;
    pot|pot_test) pkgdir=pot;;
    settlement|settlement_test) pkgdir=settlement;;
    combination|combination_test) pkgdir=combination;;
    table|table_test) pkgdir=table;;
    *) pkgdir=testcases;;
  esac
  place="$pkgdir/$demo"; run="go test -vet=off -count=1 ./$pkgdir -run ."; done
[ -n "$demo" ] || { echo "SEED $NAME: no demo found"; exit 3; }
mkdir -p "$WT/$(dirname "$place")"; cp -r "$SRC/$demo" "$WT/$place"
# the demo must only run itself: restrict go test to the demo's test functions
if [[ "$demo" == *_test.go ]]; then pat=$(grep -o 'func Test[A-Za-z0-9_]*' "$SRC/$demo" | sed 's/func //' | paste -sd'|'); run="go test -vet=off -count=1 ./$(dirname "$place") -run '^($pat)$'"; fi
base_ok=0; (cd "$WT" && eval "$run" >/tmp/seed_base.log 2>&1) && base_ok=1
(cd "$WT" && git apply "$SRC/patch.diff") || { echo "SEED $NAME: patch does not apply"; exit 3; }
build_ok=0; (cd "$WT" && go build ./... >/dev/null 2>&1) && build_ok=1
mut_fail=0; (cd "$WT" && eval "$run" >/tmp/seed_mut.log 2>&1) || mut_fail=1
rm -rf "$WT/cmd_demo" "$WT/$place"
suite_ok=0; (cd "$WT" && go test -vet=off -count=1 ./combination ./pot ./regulator ./settlement ./testcases >/tmp/seed_suite.log 2>&1) && suite_ok=1
echo "SEED $NAME: demo-passes-unchanged=$base_ok builds=$build_ok demo-fails-with-change=$mut_fail suite-passes=$suite_ok"
results=""
for p in $PROPS; do
  out=$(/verif/tools/mutant.sh "$SRC/patch.diff" $p quick 2>&1)
  rc=$(echo "$out" | grep -o 'exit=[0-9]*' | tail -1 | cut -d= -f2)
  sig=$(echo "$out" | grep -o 'minimising the first: [^:]*' | head -1 | sed 's/minimising the first: //')
  echo "  check $p: exit=$rc ${sig}"
  results="$results{\"property\":\"$p\",\"exit\":${rc:-null},\"signature\":\"$(echo $sig | sed 's/"/\\"/g')\"},"
done
if [ $base_ok = 1 ] && [ $build_ok = 1 ] && [ $mut_fail = 1 ] && [ $suite_ok = 1 ]; then
  D=/verif/seeded/$NAME; mkdir -p "$D"; cp -r "$SRC/patch.diff" "$SRC/$demo" "$D/"; cp "$SRC/README.md" "$D/README.md" 2>/dev/null
  cat > "$D/meta.json" <<EOM
{"name":"$NAME","breaks":"$(echo $PROPS | cut -d' ' -f1)","demo":"$demo","demo_placement":"$place","demo_cmd":"$run",
 "confirmed":{"demo_passes_unchanged":true,"builds":true,"demo_fails_with_change":true,"stable_suite_passes":true},
 "checks_run":[${results%,}],
 "what_i_ran":"tools/seed_eval.sh: scratch worktree of /repo HEAD, demo without and with the patch, go build, 5 stable test packages; then tools/mutant.sh (scratch copy, VERIF_REPO) with the quick tier of each listed check",
 "needs_to_manifest":"see README.md"}
EOM
  echo "  kept as $D"
else
  echo "  NOT kept"
fi
