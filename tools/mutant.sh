#!/bin/bash
# tools/mutant.sh <patch.diff> <property> [tier]  - apply a patch to a scratch
# copy of /repo, run the property's check against it, remove the copy.
# Prints the check's last lines and "RESULT <patch> <prop> exit=<rc>".
set -u
PATCH="$(readlink -f "$1")"; PROP="$2"; TIER="${3:-quick}"
D="$(mktemp -d /var/tmp/verif-mut-XXXXXX)"
trap 'rm -rf "$D"; T=$(echo "$D" | md5sum | cut -c1-8); rm -f /verif/.build/simcheck.$T /verif/.build/alt.$T.mod /verif/.build/alt.$T.sum /verif/.build/simcheck-y.$T /verif/.build/y.$T.mod /verif/.build/y.$T.sum /verif/.build/y.$T.lock' EXIT
rsync -a --exclude .git /repo/ "$D/"
if ! (cd "$D" && patch -p1 -s < "$PATCH"); then echo "RESULT $1 $PROP patch-failed"; exit 3; fi
export GOFLAGS=-mod=mod GOPROXY=off GOSUMDB=off GOTOOLCHAIN=local
if ! (cd "$D" && go build ./... ) >/dev/null 2>&1; then echo "RESULT $1 $PROP does-not-compile"; exit 3; fi
if [ "${MUT_TESTS:-0}" = "1" ]; then
  (cd "$D" && go test -vet=off -count=1 ./combination ./pot ./regulator ./settlement ./testcases >/dev/null 2>&1) || { echo "RESULT $1 $PROP suite-fails"; exit 3; }
fi
VERIF_DIR_REPLAYS="$D/replays" VERIF_REPO="$D" VERIF_EVIDENCE_DIR="$D/evidence" timeout 1800 /verif/verif.sh check "$PROP" "$TIER" 2>&1 | cut -c1-400 | grep -v "^  also\|^  step" | tail -4
rc=${PIPESTATUS[0]}
echo "RESULT $(basename "$1") $PROP exit=$rc"
