#!/bin/bash
# tools/benign_eval.sh <patch.diff> [tier] - apply a property-PRESERVING change to a scratch copy of /repo and run
# every claimed check against it: all must exit 0 (false-alarm test). Prints one line per check that does not.
set -u
PATCH="$(readlink -f "$1")"; TIER="${2:-quick}"
D="$(mktemp -d /var/tmp/verif-ben-XXXXXX)"
trap 'rm -rf "$D"; T=$(echo "$D" | md5sum | cut -c1-8); rm -f /verif/.build/simcheck.$T /verif/.build/alt.$T.mod /verif/.build/alt.$T.sum /verif/.build/simcheck-y.$T /verif/.build/y.$T.mod /verif/.build/y.$T.sum /verif/.build/y.$T.lock' EXIT
rsync -a --exclude .git /repo/ "$D/"
(cd "$D" && patch -p1 -s < "$PATCH") || { echo "BENIGN $1 patch-failed"; exit 3; }
export GOFLAGS=-mod=mod GOPROXY=off GOSUMDB=off GOTOOLCHAIN=local
(cd "$D" && go build ./... && go build -tags verif ./... ) >/dev/null 2>&1 || { echo "BENIGN $1 does-not-compile"; exit 3; }
(cd "$D" && go test -vet=off -count=1 ./combination ./pot ./regulator ./settlement ./testcases >/dev/null 2>&1) || { echo "BENIGN $1 suite-fails"; exit 3; }
bad=0
for p in ${BENIGN_PROPS:-C01 C02 C04 C05 C06 C07 C08 C09 C10 C11 C12 C13 C14 C15 C16 C17 C18 C19 C20}; do
  out=$(VERIF_DIR_REPLAYS="$D/replays" VERIF_REPO="$D" VERIF_EVIDENCE_DIR="$D/evidence" timeout 1800 /verif/verif.sh check $p $TIER 2>&1); rc=$?
  if [ $rc -ne 0 ]; then bad=1; echo "  ALARM $p exit=$rc: $(echo "$out" | grep -m1 'minimising the first' | cut -c1-400)"; echo "$out" | grep -A3 "^  steps:" | head -3 | cut -c1-400; fi
done
echo "BENIGN $(basename $(dirname $PATCH))/$(basename $PATCH) alarms=$bad"
