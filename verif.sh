#!/bin/bash
# Entry point of the deterministic-simulation harness.
#   ./verif.sh setup                 build the harness (offline)
#   ./verif.sh check <id> <tier>     run one property check (quick|thorough)
#   ./verif.sh replay <file>         re-execute a replay file in a fresh process
#   ./verif.sh baseline-off          repository's stable tests with the verif tag OFF
#   ./verif.sh selftest determinism  event-log determinism across processes / GOMAXPROCS / workers
# Exit codes of check: 0 held, 1 violation (VIOLATION line), 2 harness/build trouble.
set -u
HERE="$(cd "$(dirname "$0")" && pwd)"
export GOFLAGS=-mod=mod GOPROXY=off GOSUMDB=off GOTOOLCHAIN=local GONOSUMDB=* GONOSUMCHECK=1 GOFLAGS="-mod=mod"
export VERIF_DIR="$HERE"
REPO="${VERIF_REPO:-/repo}"
BUILD="$HERE/.build"
BIN="$BUILD/simcheck"

build() {
  mkdir -p "$BUILD"
  [ -f "$HERE/harness/go.sum" ] || cp "$REPO/go.sum" "$HERE/harness/go.sum"
  local modflag=""
  if [ "$REPO" != "/repo" ]; then
    local tag="$(echo "$REPO" | md5sum | cut -c1-8)"
    sed "s#=> /repo#=> $REPO#" "$HERE/harness/go.mod" > "$BUILD/alt.$tag.mod"
    cp "$HERE/harness/go.sum" "$BUILD/alt.$tag.sum"
    modflag="-modfile=$BUILD/alt.$tag.mod"
    BIN="$BUILD/simcheck.$tag"
  fi
  local log="$BUILD/build.$$.log"
  (cd "$HERE/harness" && go build $modflag -tags verif -o "$BIN" ./cmd/simcheck) >"$log" 2>&1
  local rc=$?
  if [ $rc -ne 0 ]; then
    echo "HARNESS-FAULT: build failed (see below)" >&2
    cat "$log" >&2; rm -f "$log"
    exit 2
  fi
  rm -f "$log"
}

case "${1:-}" in
  setup)
    build
    echo "setup ok: $BIN"
    ;;
  check)
    id="${2:?property id}"; tier="${3:-${VERIF_TIER:-quick}}"
    build
    VERIF_REPO="$REPO" "$BIN" check -p "$id" -tier "$tier"
    exit $?
    ;;
  replay)
    build
    "$BIN" replay "${2:?file}"
    exit $?
    ;;
  baseline-off)
    cd /repo && go build ./... && go test -vet=off -count=1 ./combination ./pot ./regulator ./settlement ./testcases
    exit $?
    ;;
  selftest)
    build
    shift
    exec "$HERE/selftest.sh" "$BIN" "$@"
    ;;
  *)
    echo "usage: $0 setup|check <id> <tier>|replay <file>|baseline-off|selftest ..." >&2
    exit 2
    ;;
esac
