#!/bin/bash
# Entry point of the deterministic-simulation harness.
#   ./verif.sh setup                 build the harness (offline)
#   ./verif.sh check <id> <tier>     run one property check (quick|thorough)
#   ./verif.sh replay <file>         re-execute a replay file in a fresh process
#   ./verif.sh baseline-off          repository's stable tests with the verif tag OFF
#   ./verif.sh selftest determinism  event-log determinism across processes / GOMAXPROCS / workers
# Exit codes of check: 0 held, 1 violation (VIOLATION line), 2 harness/build trouble.
set -u
HERE="$(cd "$(dirname "$0")" && pwd)"
export GOFLAGS=-mod=mod GOPROXY=off GOSUMDB=off GOTOOLCHAIN=local GONOSUMDB=* GONOSUMCHECK=1 GOFLAGS="-mod=mod"
export VERIF_DIR="$HERE"
REPO="${VERIF_REPO:-/repo}"
BUILD="$HERE/.build"
BIN="$BUILD/simcheck"

build() {
  mkdir -p "$BUILD"
  [ -f "$HERE/harness/go.sum" ] || cp "$REPO/go.sum" "$HERE/harness/go.sum"
  local modflag=""
  if [ "$REPO" != "/repo" ]; then
    local tag="$(echo "$REPO" | md5sum | cut -c1-8)"
    sed "s#=> /repo#=> $REPO#" "$HERE/harness/go.mod" > "$BUILD/alt.$tag.mod"
    cp "$HERE/harness/go.sum" "$BUILD/alt.$tag.sum"
    modflag="-modfile=$BUILD/alt.$tag.mod"
    BIN="$BUILD/simcheck.$tag"
  fi
  local log="$BUILD/build.$$.log"
  (cd "$HERE/harness" && go build $modflag -tags verif -o "$BIN" ./cmd/simcheck) >"$log" 2>&1
  local rc=$?
  if [ $rc -ne 0 ]; then
    echo "HARNESS-FAULT: build failed (see below)" >&2
    cat "$log" >&2; rm -f "$log"
    exit 2
  fi
  rm -f "$log"
}

# Properties with the concurrent-hands part (world Y) need a second binary,
# built over a generated copy of $REPO in which every engine statement is a
# scheduling point. The copy lives under /var/tmp only while it is compiled.
needs_y() { case "$1" in C01|C02|C04|C05|C06|C07|C08|C10|C11|C12|C13|C14|C15|C16|C17|C18) return 0;; esac; return 1; }

build_y() {
  mkdir -p "$BUILD"
  local tag="$(echo "$REPO" | md5sum | cut -c1-8)"
  local copy="/var/tmp/verif-y-$tag"
  local ybin="$BUILD/simcheck-y.$tag"
  local log="$BUILD/build-y.$$.log"
  (
    flock 9
    rm -rf "$copy"
    (cd "$HERE/harness" && go run ./cmd/yieldgen "$REPO" "$copy/repo") >"$log" 2>&1 || exit 1
    sed "s#=> /repo#=> $copy/repo#" "$HERE/harness/go.mod" > "$BUILD/y.$tag.mod"
    cp "$HERE/harness/go.sum" "$BUILD/y.$tag.sum"
    (cd "$HERE/harness" && go build -modfile="$BUILD/y.$tag.mod" -tags "verif verifyield" -o "$ybin.tmp" ./cmd/simcheck) >>"$log" 2>&1 || exit 1
    mv "$ybin.tmp" "$ybin"
  ) 9>"$BUILD/y.$tag.lock"
  local rc=$?
  rm -rf "$copy"
  if [ $rc -ne 0 ]; then
    echo "NOTE: the binary with scheduling points could not be built; the concurrent-hands part is left out:" >&2
    tail -5 "$log" >&2; rm -f "$log" "$ybin.tmp"
    export VERIF_YBIN="" VERIF_YBIN_WHY="the generated copy with scheduling points did not build"
    return 0
  fi
  rm -f "$log"
  export VERIF_YBIN="$ybin"
}

case "${1:-}" in
  setup)
    build
    build_y
    echo "setup ok: $BIN"
    ;;
  check)
    id="${2:?property id}"; tier="${3:-${VERIF_TIER:-quick}}"
    build
    if needs_y "$id"; then build_y; fi
    VERIF_REPO="$REPO" "$BIN" check -p "$id" -tier "$tier"
    exit $?
    ;;
  replay)
    build
    if grep -q '"world": *"S\?Y"' "${2:?file}" 2>/dev/null; then build_y; fi
    "$BIN" replay "${2:?file}"
    exit $?
    ;;
  baseline-off)
    cd /repo && go build ./... && go test -vet=off -count=1 ./combination ./pot ./regulator ./settlement ./testcases
    exit $?
    ;;
  selftest)
    build
    build_y
    shift
    exec "$HERE/selftest.sh" "$BIN" "$@"
    ;;
  *)
    echo "usage: $0 setup|check <id> <tier>|replay <file>|baseline-off|selftest ..." >&2
    exit 2
    ;;
esac
