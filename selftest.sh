#!/bin/bash
# selftest.sh <simcheck-binary> determinism [runs]
# Determinism self-test: the event logs (per-step state hashes, step strings,
# violation signatures) of N sub-seeds per property are hashed in >= 30 fresh
# processes across GOMAXPROCS 1/4/16 and worker counts 1/16; all hashes of a
# property must be equal. Also greps the harness for map iteration in decision
# paths. Exit 0 = deterministic, 2 = mismatch (harness fault, never a VIOLATION).
BIN="$1"; what="${2:-determinism}"; RUNS="${3:-300}"
[ "$what" = determinism ] || { echo "usage: selftest.sh <bin> determinism [runs]"; exit 2; }
export VERIF_DIR="${VERIF_DIR:-/verif}"
rc=0
for p in C01 C04 C07 C15 C18 C08 C09 C20; do
  declare -A seen=()
  n=0
  for gmp in 1 4 16; do
    for w in 1 16; do
      case $p in C18|C08|C17) w=1;; esac   # world S: one run at a time per process (global math/rand, package-level hooks)
      for rep in 1 2 3; do
        h=$(GOMAXPROCS=$gmp timeout 600 "$BIN" dethash -p $p -runs $RUNS -workers $w | sed 's/.*hash=//')
        seen[$h]=1; n=$((n+1))
      done
    done
  done
  if [ ${#seen[@]} -eq 1 ]; then echo "determinism $p: $n processes, 1 distinct hash (${!seen[@]}) OK"; else echo "determinism $p: $n processes, ${#seen[@]} DISTINCT hashes: ${!seen[@]}  MISMATCH"; rc=2; fi
  unset seen
done
# world Y (concurrent hands over the copy with scheduling points): same test
# on the second binary; the hash covers every recorded switch position
YB="${VERIF_YBIN:-}"
if [ -n "$YB" ] && [ -x "$YB" ]; then
  for p in C07 C10 C15 C01; do
    declare -A seen=()
    n=0
    for gmp in 1 4 16; do
      for rep in 1 2 3 4 5 6; do
        h=$(GOMAXPROCS=$gmp timeout 600 "$YB" dethash -p $p -world Y -runs $((RUNS/5)) -workers 1 | sed 's/.*hash=//')
        seen[$h]=1; n=$((n+1))
      done
    done
    if [ ${#seen[@]} -eq 1 ]; then echo "determinism $p world Y: $n processes, 1 distinct hash (${!seen[@]}) OK"; else echo "determinism $p world Y: $n processes, ${#seen[@]} DISTINCT hashes: ${!seen[@]}  MISMATCH"; rc=2; fi
    unset seen
  done
  # world S over the generated copy (recorded per-goroutine parking streams)
  for p in C18 C17; do
    declare -A seen=()
    n=0
    for gmp in 1 4 16; do
      for rep in 1 2 3 4 5 6; do
        h=$(GOMAXPROCS=$gmp timeout 600 "$YB" dethash -p $p -world SY -runs $((RUNS/2)) -workers 1 | sed 's/.*hash=//')
        seen[$h]=1; n=$((n+1))
      done
    done
    if [ ${#seen[@]} -eq 1 ]; then echo "determinism $p world S over the generated copy: $n processes, 1 distinct hash (${!seen[@]}) OK"; else echo "determinism $p world S over the generated copy: $n processes, ${#seen[@]} DISTINCT hashes: ${!seen[@]}  MISMATCH"; rc=2; fi
    unset seen
  done
  # cold-start groups of world Y
  declare -A seen=()
  n=0
  for gmp in 1 4 16; do
    for rep in 1 2 3 4; do
      h=$(GOMAXPROCS=$gmp timeout 600 "$YB" dethash -p C07 -world Ycold -runs $((RUNS/10)) -workers 1 | sed 's/.*hash=//')
      seen[$h]=1; n=$((n+1))
    done
  done
  if [ ${#seen[@]} -eq 1 ]; then echo "determinism C07 world Y cold-start policies: $n processes, 1 distinct hash (${!seen[@]}) OK"; else echo "determinism C07 world Y cold-start policies: $n processes, ${#seen[@]} DISTINCT hashes: ${!seen[@]}  MISMATCH"; rc=2; fi
  unset seen
else
  echo "determinism world Y: binary not built, skipped"
fi
echo "map iteration / sync.Map.Range in harness decision paths (must be empty or order-insensitive, reviewed):"
grep -n "\.Range(" -r "$VERIF_DIR/harness" --include=*.go | grep -v _test.go
grep -n "for .* := range .*[mM]ap\|range r\.alive\|range place\|range cnt\|range p\.Contributors\|range m\b" -r "$VERIF_DIR/harness" --include=*.go | head -30
exit $rc
